"""Compile an emitted package UNMODIFIED against a model EDM with ASan+UBSan, run it on an
event file and parse the monitor log into per-event observations."""
from __future__ import annotations

import os
import re
import shutil
import subprocess
from pathlib import Path
from typing import Any, Dict, List, Optional, Tuple

from .edm import BASE_FLAGS, CXX, SAN_FLAGS, Model

WERR = ["-Werror=uninitialized", "-Werror=sometimes-uninitialized", "-Werror=return-type"]
ASAN_ENV = {"ASAN_OPTIONS": "detect_leaks=0:halt_on_error=1:abort_on_error=0:allocator_may_return_null=1:detect_stack_use_after_return=1",
            "UBSAN_OPTIONS": "print_stacktrace=0:halt_on_error=1"}


def unhex(h: str) -> str:
    return "" if h == "-" else bytes.fromhex(h).decode("utf-8", "replace")


def link_libraries_from_cmake(pkg: Path) -> List[str]:
    p = pkg / "package_CMakeLists.txt"
    if not p.exists():
        return []
    m = re.search(r"LINK_LIBRARIES\s+AnaAlgorithmLib([^)]*)\)", p.read_text())
    return m.group(1).split() if m else []


def build_job(model: Model, pkg: Path, jobdir: Path, extra_flags: List[str] = (), sanitize: Optional[bool] = None,
              werror: bool = True) -> Dict[str, Any]:
    """Unity-build emitted source + driver.  Returns {'ok', 'exe', 'errors', 'stage'}."""
    jobdir.mkdir(parents=True, exist_ok=True)
    pkg = Path(pkg)
    sanitize = model.sanitize if sanitize is None else sanitize
    if model.backend == "atlas":
        inc = jobdir / "inc" / "analysis"
        inc.mkdir(parents=True, exist_ok=True)
        shutil.copy(pkg / "query.h", inc / "query.h")
        unity = f'#include "{pkg}/query.cxx"\n#include "atlas_driver.cxx"\n'
        libs = model.lib_objects(link_libraries_from_cmake(pkg))
    else:
        unity = f'#include "{pkg}/Analyzer.cc"\n#include "cms_driver.cxx"\n'
        libs = []
    (jobdir / "unity.cxx").write_text(unity)
    miss = missing_std_includes(pkg, model.backend)
    if miss:
        return {"ok": False, "stage": "includes", "errors": [miss]}
    flags = [*BASE_FLAGS, *(SAN_FLAGS if sanitize else []), *(WERR if werror else [])]
    # compiler options the package's own build description asks for (after ours: they win, as they would in the real build)
    extra_flags = [*extra_flags, *package_compile_options(pkg, model.backend)]
    cmd = [CXX, *flags, *extra_flags, "-I", str(model.inc), "-I", str(jobdir / "inc")]
    if model.pch is not None and sanitize == model.sanitize and not package_compile_options(pkg, model.backend):   # a PCH only fits the options it was built with
        cmd += ["-include-pch", str(model.pch)]
    exe = jobdir / "job"
    cmd += [str(jobdir / "unity.cxx"), *libs, "-o", str(exe)]
    r = subprocess.run(cmd, capture_output=True, text=True)
    if r.returncode != 0:
        errs = [l for l in r.stderr.splitlines() if "error" in l or "undefined reference" in l or "undefined symbol" in l]
        stage = "link" if any("undefined" in l or "ld:" in l or "linker" in l for l in errs) and not any(": error:" in l for l in errs) else "compile"
        return {"ok": False, "stage": stage, "errors": [e[-300:] for e in errs[:6]] or [r.stderr[-400:]]}
    return {"ok": True, "exe": str(exe)}


# Language level and compiler family of the images the three dataset classes run by default: AnalysisBase 21.2 (gcc 8, C++14),
# CMSSW_5_3_32 (gcc 4.x, -std=c++0x), CMSSW_7_6_7 gcc493 (C++14).  The harness builds its jobs with clang++ -std=c++17.
TARGET_STD = {"atlas": "c++14", "cms_aod": "c++11", "cms_miniaod": "c++14"}


def dialect_check(model: Model, jobdir: Path, timeout: int = 300) -> Optional[str]:
    """Second compiler, target dialect: the unity source of a job that built with clang++/C++17 must also pass
    `g++ -std=<what the experiment's release compiles with> -fsyntax-only`.  Returns the first error lines, or None."""
    if shutil.which("g++") is None:
        return None
    cmd = ["g++", f"-std={TARGET_STD[model.backend]}", "-fsyntax-only", "-w", "-I", str(model.inc), "-I", str(jobdir / "inc"), str(jobdir / "unity.cxx")]
    try:
        r = subprocess.run(cmd, capture_output=True, text=True, timeout=timeout)
    except subprocess.TimeoutExpired:
        return None
    if r.returncode == 0:
        return None
    errs = [l for l in r.stderr.splitlines() if "error" in l]
    return " | ".join(e[-220:] for e in errs[:3]) or r.stderr[-300:]


def package_compile_options(pkg: Path, backend: str) -> List[str]:
    "options named in target_compile_options(...) of the ATLAS CMake file / in <flags CXXFLAGS=...> of the CMS BuildFile"
    out: List[str] = []
    if backend == "atlas":
        f = pkg / "package_CMakeLists.txt"
        if f.exists():
            for m in re.finditer(r"target_compile_options\s*\(([^)]*)\)", f.read_text(errors="replace")):
                out += [w for w in m.group(1).split() if w.startswith("-")]
            for m in re.finditer(r"add_compile_options\s*\(([^)]*)\)", f.read_text(errors="replace")):
                out += [w for w in m.group(1).split() if w.startswith("-")]
    else:
        f = pkg / "BuildFile.xml"
        if f.exists():
            for m in re.finditer(r"<flags\s+(?:CXXFLAGS|CPPFLAGS|CXXOPTIMIZEDFLAGS)\s*=\s*\"([^\"]*)\"", f.read_text(errors="replace")):
                out += [w for w in m.group(1).split() if w.startswith("-")]
    return out


_CMATH = ("sin|cos|tan|asin|acos|atan|atan2|sinh|cosh|tanh|asinh|acosh|atanh|sqrt|cbrt|exp|exp2|expm1|log|log10|log2|log1p|pow|hypot|fmod|remainder|floor|ceil|trunc|round|rint|nearbyint|"
          "fabs|fmax|fmin|fdim|fma|erf|erfc|tgamma|lgamma|copysign|nextafter|nexttoward|ldexp|scalbn|scalbln|ilogb|logb|nan")
_CMATH_USE = re.compile(r"\bstd\s*::\s*(" + _CMATH + r")\s*\(")


def missing_std_includes(pkg: Path, backend: str) -> Optional[str]:
    """Include-what-you-use monitor for the one standard header the translator's function table relies on: the model
    framework headers pull <cmath> in on their own, the real frameworks need not.  The emitted source (or the package
    header it includes) must name <cmath> when it calls a std:: math function."""
    files = [pkg / "query.cxx", pkg / "query.h"] if backend == "atlas" else [pkg / "Analyzer.cc"]
    text = "\n".join(f.read_text(errors="replace") for f in files if f.exists())
    m = _CMATH_USE.search(text)
    if m and not re.search(r"#\s*include\s*[<\"]cmath[>\"]", text):
        return f"std::{m.group(1)} is called but the package never includes <cmath>"
    return None


_SAN_RE = re.compile(r"(SUMMARY: \w*Sanitizer: [^\n]*|runtime error: [^\n]*|ERROR: AddressSanitizer: [^\n]*)")


def run_job(exe: str, evfile: str, nevents: int, timeout: int = 60, wrapper: List[str] = ()) -> Dict[str, Any]:
    """Run the job over the event file; after a sanitizer abort / crash restart behind the dead event.
    Returns {'events': {k: obs}, 'book': [...], 'log': [raw lines], 'crashes': [...]}"""
    events: Dict[int, Dict[str, Any]] = {}
    book: List[Dict[str, Any]] = []
    raw: List[str] = []
    crashes: List[Dict[str, Any]] = []
    start = 0
    guard = 0
    env = {**os.environ, **ASAN_ENV}
    while start < nevents and guard <= nevents + 1:
        guard += 1
        try:
            r = subprocess.run([*wrapper, exe, evfile, str(start)], capture_output=True, text=True, timeout=timeout, env=env, errors="replace")
            out, err, rc = r.stdout, r.stderr, r.returncode
        except subprocess.TimeoutExpired as te:
            out = (te.stdout or b"").decode("utf-8", "replace") if isinstance(te.stdout, bytes) else (te.stdout or "")
            err, rc = "TIMEOUT", -999
        lines = out.splitlines()
        raw += lines
        cur = None
        last_begun = None
        in_init = False
        for l in lines:
            if l.startswith("JOB_BEGIN"):
                in_init = True
                cur_book: Dict[str, Any] = {"trees": [], "branches": [], "consumes": []}
                book.append(cur_book)
            elif l.startswith("INIT_OK") or l.startswith("INIT_FAIL") or l.startswith("INIT_THROW"):
                in_init = False
                if not l.startswith("INIT_OK"):
                    book[-1]["init_failed"] = l
            elif l.startswith("EVENT_BEGIN"):
                cur = int(l.split()[1])
                last_begun = cur
                events[cur] = {"rows": [], "status": None, "retrieves": [], "flags": [], "what": None}
            elif l.startswith("EVENT_END"):
                k = int(l.split()[1])
                st = l.split("status=")[1]
                events[k]["status"] = st.split()[0]
                if "what=" in st:
                    events[k]["what"] = unhex(st.split("what=")[1].strip())
                cur = None
            elif l.startswith("BOOK "):
                (book[-1]["trees"] if book else []).append(unhex(l.split("tree=")[1].strip()))
            elif l.startswith("BRANCH "):
                f = dict(x.split("=", 1) for x in l.split()[1:])
                book[-1]["branches"].append({"tree": unhex(f["tree"]), "name": unhex(f["name"]), "type": unhex(f["type"]), "addr": f["addr"]})
            elif l.startswith("CONSUMES "):
                f = dict(x.split("=", 1) for x in l.split()[1:])
                book[-1]["consumes"].append({"serial": int(f["serial"]), "ctype": unhex(f["ctype"]), "bank": unhex(f["bank"])})
            elif l.startswith("FILL "):
                parts = l.split()
                try:
                    row = {"tree": unhex(parts[1].split("=")[1]), "cols": [(unhex(p.split("=", 1)[0]), parse_val(p.split("=", 1)[1])) for p in parts[2:]]}
                except Exception:
                    row = {"tree": "?", "cols": [("<malformed FILL record>", l[:200])]}
                if cur is not None:
                    events[cur]["rows"].append(row)
                else:
                    book[-1].setdefault("stray_fills", []).append(row)
            elif l.startswith("RETRIEVE "):
                f = dict(x.split("=", 1) for x in l.split()[1:])
                rec = {"how": f["how"], "ctype": unhex(f["ctype"]), "bank": unhex(f["bank"]), "ok": True}
                (events[cur]["retrieves"] if cur is not None else book[-1].setdefault("stray_retrieves", [])).append(rec)
            elif l.startswith("RETRIEVE_FAIL"):
                if cur is not None and events[cur]["retrieves"]:
                    events[cur]["retrieves"][-1]["ok"] = False
            elif l.split(" ")[0] in ("NULL_DEREF", "INVALID_HANDLE_DEREF", "TOKEN_UNINITIALIZED", "MODEL_MISSING", "ANA_CHECK_FAIL", "TREE_MISSING", "BOOK_DUPLICATE", "GETATTR", "TOKEN_USE", "ECHO"):
                if cur is not None:
                    events[cur]["flags"].append(l)
                elif book:
                    book[-1].setdefault("flags", []).append(l)
        finished = any(l.startswith("JOB_END") for l in lines)
        if finished and rc == 0:
            break
        # abnormal end: attribute it to the event that was running (or to init)
        san = _SAN_RE.findall(err)
        info = {"rc": rc, "sanitizer": san[:3], "stderr_tail": err[-400:] if not san else ""}
        if last_begun is not None and events[last_begun]["status"] is None:
            events[last_begun]["status"] = "CRASH"
            events[last_begun]["what"] = "; ".join(san[:2]) or f"rc={rc} {err[-200:]}"
            info["event"] = last_begun
            crashes.append(info)
            start = last_begun + 1
        else:
            info["event"] = None
            crashes.append(info)
            break
    return {"events": events, "book": book, "log": raw, "crashes": crashes}


def parse_val(s: str):
    s = s.strip()
    if s.startswith("["):
        out, depth, cur = [], 0, ""
        for ch in s[1:-1]:
            if ch == "[":
                depth += 1
            if ch == "]":
                depth -= 1
            if ch == "," and depth == 0:
                out.append(parse_val(cur))
                cur = ""
            else:
                cur += ch
        if cur.strip():
            out.append(parse_val(cur))
        return out
    if s == "true":
        return True
    if s == "false":
        return False
    if s.startswith("s:"):
        return unhex(s[2:])
    if s.startswith("<unprintable"):
        return s
    if s == "-0":
        return -0.0
    try:
        return int(s)
    except ValueError:
        pass
    try:
        return float(s)
    except ValueError:
        return "<unparsable:" + s[:40] + ">"   # garbage from the job (e.g. an uninitialised value): compares unequal to anything
