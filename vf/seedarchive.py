"""Builds /verif/seeded/<id>/ from the sub-agents' deliveries (/tmp/seed_out) and my verification results.

  python -m vf.seedarchive /tmp/seed_results_final.jsonl [delivery dir, default /tmp/seed_out] [id offset, default 0]
Round 1 is archived as <pid>-1/-2, round 2 (offset 2) as <pid>-3/-4, round 3 (offset 4) as <pid>-5/-6.
Each line of the results file: {"id": "C07", "k": "1", "verify": {...}, "checks": {"C07": {"rc": 1, "first": [...]}}, "note": "..."}"""
from __future__ import annotations

import json
import shutil
import sys
from pathlib import Path

VERIF = Path(__file__).resolve().parent.parent


def main(results_file: str, delivery: str = "/tmp/seed_out", offset: int = 0):
    notes_file = VERIF / "seeded" / "NOTES.json"
    notes = json.loads(notes_file.read_text())["notes"] if notes_file.exists() else {}
    latest = {}
    for l in Path(results_file).read_text().splitlines():
        r = json.loads(l)
        latest[(r["id"], r["k"])] = r
    rows = []
    for (pid, k), r in sorted(latest.items()):
        src = Path(delivery) / pid
        sid = f"{pid}-{int(k) + offset}"
        if not r.get("verify", {}).get("ok") and sid not in notes:
            continue   # (a change that no longer verifies is only kept when NOTES.json says why)
        d = VERIF / "seeded" / sid
        d.mkdir(parents=True, exist_ok=True)
        shutil.copy(src / f"patch{k}.diff", d / "patch.diff")
        shutil.copy(src / f"demo{k}.py", d / "demo.py")
        if (src / f"demo{k}.orig_before_adaptation.py").exists():
            shutil.copy(src / f"demo{k}.orig_before_adaptation.py", d / "demo.orig_before_adaptation.py")
        if (src / f"patch{k}.orig_before_rebase.diff").exists():
            shutil.copy(src / f"patch{k}.orig_before_rebase.diff", d / "patch.orig_before_rebase.diff")
        meta = json.loads((src / f"meta{k}.json").read_text()) if (src / f"meta{k}.json").exists() else {}
        caught = {c: v for c, v in (r.get("checks") or {}).items()}
        meta_out = {
            "breaks_property": pid,
            "author": "independent sub-agent (saw only the property text and its own worktree)",
            "summary": meta.get("summary"),
            "needs_to_manifest": meta.get("needs_to_manifest"),
            "how_demonstrated": meta.get("how_demonstrated"),
            "round": offset // 2 + 1,
            "what_i_ran": [
                "scratch worktree: git apply patch.diff; full test suite -> " + str(r["verify"].get("tests")),
                f"demo.py on the unchanged tree -> exit {r['verify'].get('demo_unchanged_rc')}; with the patch -> exit {r['verify'].get('demo_changed_rc')}",
                "git -C /repo apply patch.diff; ./check <id> --tier quick (for each check listed under checks_run); git -C /repo checkout -- .",
            ],
            "checks_run": {c: {"exit": v["rc"], "first_report": (v["first"][1] if len(v["first"]) > 1 else (v["first"][0] if v["first"] else ""))[:500]} for c, v in caught.items()},
            "verified_against_current_head": bool(r.get("verify", {}).get("ok")),
            "caught_by": sorted(c for c, v in caught.items() if v["rc"] == 1),
            "note": notes.get(sid, r.get("note", "")),
        }
        (d / "meta.json").write_text(json.dumps(meta_out, indent=1) + "\n")
        rows.append((sid, pid, (meta.get("summary") or "")[:110], ", ".join(meta_out["caught_by"]) or ("no longer breaks the property (see note)" if not meta_out["verified_against_current_head"] else "not claimed (see note)" if "not claimed" in str(meta_out["note"]).lower() else "MISSED"), meta_out["note"]))
    print("| seeded | property | change | caught by (quick tier) | note |\n|---|---|---|---|---|")
    for row in rows:
        print("| " + " | ".join(str(x).replace("|", "/").replace("\n", " ") for x in row) + " |")


if __name__ == "__main__":
    main(sys.argv[1], *(sys.argv[2:3]), *(int(a) for a in sys.argv[3:4]))
