"""Builds /verif/seeded/<id>/ from the sub-agents' deliveries (/tmp/seed_out) and my verification results.

  python -m vf.seedarchive /tmp/seed_results_final.jsonl
Each line of the results file: {"id": "C07", "k": "1", "verify": {...}, "checks": {"C07": {"rc": 1, "first": [...]}}, "note": "..."}"""
from __future__ import annotations

import json
import shutil
import sys
from pathlib import Path

VERIF = Path(__file__).resolve().parent.parent


def main(results_file: str):
    latest = {}
    for l in Path(results_file).read_text().splitlines():
        r = json.loads(l)
        latest[(r["id"], r["k"])] = r
    rows = []
    for (pid, k), r in sorted(latest.items()):
        src = Path("/tmp/seed_out") / pid
        if not r.get("verify", {}).get("ok"):
            continue
        sid = f"{pid}-{k}"
        d = VERIF / "seeded" / sid
        d.mkdir(parents=True, exist_ok=True)
        shutil.copy(src / f"patch{k}.diff", d / "patch.diff")
        shutil.copy(src / f"demo{k}.py", d / "demo.py")
        meta = json.loads((src / f"meta{k}.json").read_text()) if (src / f"meta{k}.json").exists() else {}
        caught = {c: v for c, v in (r.get("checks") or {}).items()}
        meta_out = {
            "breaks_property": pid,
            "author": "independent sub-agent (saw only the property text and its own worktree)",
            "summary": meta.get("summary"),
            "needs_to_manifest": meta.get("needs_to_manifest"),
            "how_demonstrated": meta.get("how_demonstrated"),
            "what_i_ran": [
                "scratch worktree: git apply patch.diff; full test suite -> " + str(r["verify"].get("tests")),
                f"demo.py on the unchanged tree -> exit {r['verify'].get('demo_unchanged_rc')}; with the patch -> exit {r['verify'].get('demo_changed_rc')}",
                "git -C /repo apply patch.diff; ./check <id> --tier quick; git -C /repo checkout -- .",
            ],
            "checks_run": {c: {"exit": v["rc"], "first_report": (v["first"][1] if len(v["first"]) > 1 else (v["first"][0] if v["first"] else ""))[:500]} for c, v in caught.items()},
            "caught_by": sorted(c for c, v in caught.items() if v["rc"] == 1),
            "note": r.get("note", ""),
        }
        (d / "meta.json").write_text(json.dumps(meta_out, indent=1) + "\n")
        rows.append((sid, pid, (meta.get("summary") or "")[:110], ", ".join(meta_out["caught_by"]) or "MISSED", r.get("note", "")))
    print("| seeded | property | change | caught by (quick tier) | note |\n|---|---|---|---|---|")
    for row in rows:
        print("| " + " | ".join(str(x).replace("|", "/").replace("\n", " ") for x in row) + " |")


if __name__ == "__main__":
    main(sys.argv[1])
