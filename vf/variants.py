"""Meaning-preserving rewrites of a query (C08): alpha-renaming with hostile names, metadata
re-attachment along the main chain, Select/Where fusion, call-style conversion."""
from __future__ import annotations

import ast
import copy
import random
from typing import Any, Dict, List, Optional, Set, Tuple

LINQ = {"Select", "SelectMany", "Where", "First", "Count", "Sum", "Min", "Max", "Aggregate"}
HOSTILE = ["e", "j", "acc", "v", "arg", "arg_1", "Jets", "Muons", "pt", "eta", "sin", "abs", "result", "i_obj1", "i_obj2", "aggResult2", "arg_3", "arg_0", "xAOD", "Trig",
           "is_first3", "bool_op1", "if_else_result4", "collection_name", "obj_j", "cms_object", "x", "_col10", "lambda_arg", "token0", "jets0"]
RESERVED = {"ds", "EventDataset", "MetaData", "ResultTTree", "True", "False", "None"}


def parse(q: str) -> ast.AST:
    return ast.parse(q, mode="eval").body


def free_names(node: ast.AST) -> Set[str]:
    "names read free in an expression (lambda parameters bind)"
    if isinstance(node, ast.Lambda):
        bound = {a.arg for a in node.args.args}
        return free_names(node.body) - bound
    if isinstance(node, ast.Name):
        return {node.id}
    out: Set[str] = set()
    for c in ast.iter_child_nodes(node):
        out |= free_names(c)
    return out


def all_names(node: ast.AST) -> Set[str]:
    return {n.id for n in ast.walk(node) if isinstance(n, ast.Name)} | {a.arg for n in ast.walk(node) if isinstance(n, ast.Lambda) for a in n.args.args}


def _rename_bound(body: ast.AST, old: str, new: str) -> ast.AST:
    "rename free occurrences of `old` in body to `new` (stops at lambdas rebinding old)"
    class R(ast.NodeTransformer):
        def visit_Lambda(self, n):
            if any(a.arg == old for a in n.args.args):
                return n
            return self.generic_visit(n)

        def visit_Name(self, n):
            if n.id == old:
                return ast.copy_location(ast.Name(new, n.ctx), n)
            return n
    return R().visit(body)


def alpha_rename(tree: ast.AST, R: random.Random, pool: List[str] = HOSTILE) -> Tuple[ast.AST, int]:
    """Rename every lambda parameter (innermost first) to a random hostile name, respecting the
    alpha-conversion side condition: the new name must not be free in the lambda's body and must
    differ from the lambda's other parameters."""
    tree = copy.deepcopy(tree)
    n_renamed = [0]

    class T(ast.NodeTransformer):
        def visit_Lambda(self, n):
            self.generic_visit(n)
            params = [a.arg for a in n.args.args]
            for i, a in enumerate(n.args.args):
                fb = free_names(n.body)
                cands = [c for c in pool if c not in fb and c not in params and c not in RESERVED]
                # also forbid capturing: an INNER lambda binding the candidate would hide our parameter where it is used
                cands = [c for c in cands if not _would_be_captured(n.body, a.arg, c)]
                if not cands:
                    continue
                new = R.choice(cands)
                n.body = _rename_bound(n.body, a.arg, new)
                a.arg = new
                params[i] = new
                n_renamed[0] += 1
            return n
    out = T().visit(tree)
    return ast.fix_missing_locations(out), n_renamed[0]


def alpha_rename_distinct(tree: ast.AST) -> Tuple[ast.AST, int]:
    "every lambda parameter gets a name of its own (u1, u2, ...)"
    used = all_names(tree)
    pool = [f"u{k}" for k in range(1, 400) if f"u{k}" not in used]

    class Seq:
        def choice(self, cands):
            x = cands[0]
            pool.remove(x)
            return x
    return alpha_rename(tree, Seq(), pool)  # type: ignore


def _would_be_captured(body: ast.AST, old: str, new: str) -> bool:
    "True if `old` occurs free inside a nested lambda that binds `new`"
    for n in ast.walk(body):
        if isinstance(n, ast.Lambda) and any(a.arg == new for a in n.args.args):
            if old in free_names(n.body) and not any(a.arg == old for a in n.args.args):
                return True
    return False


# ---------------------------------------------------------------- call style
def is_linq(n: ast.AST) -> Optional[str]:
    if isinstance(n, ast.Call):
        if isinstance(n.func, ast.Attribute) and n.func.attr in LINQ:
            return "method"
        if isinstance(n.func, ast.Name) and n.func.id in LINQ and n.args:
            return "function"
    return None


def to_style(tree: ast.AST, style: str) -> ast.AST:
    tree = copy.deepcopy(tree)

    class T(ast.NodeTransformer):
        def visit_Call(self, n):
            self.generic_visit(n)
            k = is_linq(n)
            if k == "method" and style == "function":
                return ast.Call(func=ast.Name(n.func.attr, ast.Load()), args=[n.func.value] + n.args, keywords=n.keywords)
            if k == "function" and style == "method":
                return ast.Call(func=ast.Attribute(n.args[0], n.func.id, ast.Load()), args=n.args[1:], keywords=n.keywords)
            return n
    return ast.fix_missing_locations(T().visit(tree))


def linq_name(n: ast.Call) -> str:
    return n.func.attr if isinstance(n.func, ast.Attribute) else n.func.id


def linq_src(n: ast.Call) -> ast.AST:
    return n.func.value if isinstance(n.func, ast.Attribute) else n.args[0]


def linq_args(n: ast.Call) -> List[ast.AST]:
    return n.args if isinstance(n.func, ast.Attribute) else n.args[1:]


def make_linq(like: ast.Call, name: str, src: ast.AST, args: List[ast.AST]) -> ast.Call:
    if isinstance(like.func, ast.Attribute):
        return ast.Call(func=ast.Attribute(src, name, ast.Load()), args=args, keywords=[])
    return ast.Call(func=ast.Name(name, ast.Load()), args=[src] + args, keywords=[])


# ---------------------------------------------------------------- fusion
def fuse(tree: ast.AST) -> Tuple[ast.AST, int]:
    """Select(Select(s, f), g) -> Select(s, lambda a: (g)(f_body));  Where(Where(s, f), g) -> Where(s, lambda a: f_body and g_body[b:=a])"""
    tree = copy.deepcopy(tree)
    count = [0]

    class T(ast.NodeTransformer):
        def visit_Call(self, n):
            self.generic_visit(n)
            if is_linq(n) and linq_name(n) in ("Select", "Where"):
                inner = linq_src(n)
                if is_linq(inner) and linq_name(inner) == linq_name(n):
                    g, f = linq_args(n)[0], linq_args(inner)[0]
                    if isinstance(g, ast.Lambda) and isinstance(f, ast.Lambda) and len(g.args.args) == 1 and len(f.args.args) == 1:
                        a = f.args.args[0].arg
                        if linq_name(n) == "Select":
                            body = ast.Call(func=copy.deepcopy(g), args=[copy.deepcopy(f.body)], keywords=[])
                        else:
                            b = g.args.args[0].arg
                            if a in free_names(g.body) and a != b:
                                return n  # would capture
                            if _would_be_captured(g.body, b, a):
                                return n
                            gb = _rename_bound(copy.deepcopy(g.body), b, a)
                            body = ast.BoolOp(op=ast.And(), values=[copy.deepcopy(f.body), gb])
                        count[0] += 1
                        lam = ast.Lambda(args=copy.deepcopy(f.args), body=body)
                        return make_linq(n, linq_name(n), linq_src(inner), [lam])
            return n
    return ast.fix_missing_locations(T().visit(tree)), count[0]


# ---------------------------------------------------------------- metadata placement
def main_chain(tree: ast.AST) -> List[ast.AST]:
    "nodes of the top-level chain from the outermost call down to the dataset"
    out = []
    n = tree
    while True:
        out.append(n)
        if isinstance(n, ast.Call):
            if isinstance(n.func, ast.Name) and n.func.id == "MetaData":
                n = n.args[0]
                continue
            if is_linq(n) and linq_name(n) in ("Select", "SelectMany", "Where"):
                n = linq_src(n)
                continue
        break
    return out


def strip_metadata(tree: ast.AST) -> Tuple[ast.AST, List[ast.AST]]:
    "remove MetaData calls from the main chain; returns (tree, metadata dict nodes outermost first)"
    tree = copy.deepcopy(tree)
    mds: List[ast.AST] = []

    def go(n):
        if isinstance(n, ast.Call):
            if isinstance(n.func, ast.Name) and n.func.id == "MetaData":
                mds.append(n.args[1])
                return go(n.args[0])
            if is_linq(n) and linq_name(n) in ("Select", "SelectMany", "Where"):
                src = go(linq_src(n))
                return make_linq(n, linq_name(n), src, linq_args(n))
        return n
    return go(tree), mds


def place_metadata(stripped: ast.AST, mds: List[ast.AST], depth: int) -> ast.AST:
    """Wrap the node `depth` steps down the main chain (0 = outermost call) with all metadata,
    keeping their relative (outermost-first) order."""
    def wrap(n):
        for m in reversed(mds):
            n = ast.Call(func=ast.Name("MetaData", ast.Load()), args=[n, copy.deepcopy(m)], keywords=[])
        return n

    def go(n, d):
        if d == 0:
            return wrap(n)
        if isinstance(n, ast.Call) and is_linq(n) and linq_name(n) in ("Select", "SelectMany", "Where"):
            return make_linq(n, linq_name(n), go(linq_src(n), d - 1), linq_args(n))
        return wrap(n)
    return ast.fix_missing_locations(go(copy.deepcopy(stripped), depth))


def chain_length(stripped: ast.AST) -> int:
    n, k = stripped, 0
    while isinstance(n, ast.Call) and is_linq(n) and linq_name(n) in ("Select", "SelectMany", "Where"):
        n = linq_src(n)
        k += 1
    return k


# ---------------------------------------------------------------- metadata riding on inner expressions
def _wrap_md(n: ast.AST, mds: List[ast.AST]) -> ast.AST:
    for m in reversed(mds):
        n = ast.Call(func=ast.Name("MetaData", ast.Load()), args=[n, copy.deepcopy(m)], keywords=[])
    return n


def _innermost_stream_call(stripped: ast.AST) -> Optional[ast.Call]:
    "the main-chain Select/SelectMany/Where whose source is the dataset itself"
    n, last = stripped, None
    while isinstance(n, ast.Call) and is_linq(n) and linq_name(n) in ("Select", "SelectMany", "Where"):
        last = n
        n = linq_src(n)
    return last


def _first_collection_call(lam: ast.Lambda) -> Optional[ast.Call]:
    "e.<Collection>('bank') on the lambda's own (event) parameter"
    if len(lam.args.args) != 1:
        return None
    p = lam.args.args[0].arg
    for n in ast.walk(lam.body):
        if (isinstance(n, ast.Call) and isinstance(n.func, ast.Attribute) and isinstance(n.func.value, ast.Name) and n.func.value.id == p
                and len(n.args) == 1 and isinstance(n.args[0], ast.Constant) and isinstance(n.args[0].value, str) and not n.keywords):
            return n
    return None


def metadata_on_inner_collection(stripped: ast.AST, mds: List[ast.AST]) -> Optional[ast.AST]:
    """All metadata attached to the first collection call inside the event-level lambda
    (`MetaData(e.Jets('A'), {...})`, the way calibration helper libraries send it)."""
    tree = copy.deepcopy(stripped)
    call = _innermost_stream_call(tree)
    if call is None:
        return None
    lams = [a for a in linq_args(call) if isinstance(a, ast.Lambda)]
    if not lams:
        return None
    target = _first_collection_call(lams[0])
    if target is None:
        return None
    wrapped = _wrap_md(copy.deepcopy(target), mds)

    class T(ast.NodeTransformer):
        done = False

        def visit_Call(self, n):
            if n is target and not self.done:
                self.done = True
                return wrapped
            return self.generic_visit(n)
    lams[0].body = T().visit(lams[0].body)
    return ast.fix_missing_locations(tree)


def metadata_on_discarded_element(stripped: ast.AST, mds: List[ast.AST]) -> Optional[ast.AST]:
    """`S(ds, lambda e: B)`  ->  `S(Select(ds, lambda e0: (MetaData(e0.Coll('bank'), ...), e0)), lambda t0: B[e := t0[1]])`:
    the metadata rides on a tuple element the rest of the query never uses (tuple resolution removes it)."""
    tree = copy.deepcopy(stripped)
    call = _innermost_stream_call(tree)
    if call is None or linq_name(call) == "Where":   # a Where hands its input on: the tuple would reach the rest of the chain
        return None
    lams = [a for a in linq_args(call) if isinstance(a, ast.Lambda)]
    if not lams or len(lams[0].args.args) != 1:
        return None
    lam = lams[0]
    coll = _first_collection_call(lam)
    if coll is None:
        return None
    used = all_names(tree)
    e0 = next(n for n in ("e0", "ev0", "evt_0", "q0") if n not in used)
    t0 = next(n for n in ("t0", "tp0", "tup_0", "q1") if n not in used)
    carrier = ast.Call(func=ast.Attribute(ast.Name(e0, ast.Load()), coll.func.attr, ast.Load()), args=[copy.deepcopy(coll.args[0])], keywords=[])
    first = ast.Lambda(args=ast.arguments(posonlyargs=[], args=[ast.arg(e0)], kwonlyargs=[], kw_defaults=[], defaults=[]),
                       body=ast.Tuple([_wrap_md(carrier, mds), ast.Name(e0, ast.Load())], ast.Load()))
    p = lam.args.args[0].arg

    class S(ast.NodeTransformer):
        def visit_Lambda(self, n):
            if any(a.arg == p for a in n.args.args):
                return n
            return self.generic_visit(n)

        def visit_Name(self, n):
            if n.id == p:
                return ast.Subscript(ast.Name(t0, ast.Load()), ast.Constant(1), ast.Load())
            return n
    new_body = S().visit(copy.deepcopy(lam.body))
    second = ast.Lambda(args=ast.arguments(posonlyargs=[], args=[ast.arg(t0)], kwonlyargs=[], kw_defaults=[], defaults=[]), body=new_body)
    src = linq_src(call)
    inner = ast.Call(func=ast.Name("Select", ast.Load()), args=[src, first], keywords=[])
    new_call = make_linq(call, linq_name(call), inner, [second])

    class R(ast.NodeTransformer):
        def visit_Call(self, n):
            if n is call:
                return new_call
            return self.generic_visit(n)
    return ast.fix_missing_locations(R().visit(tree))


def metadata_lists_as_tuples(tree: ast.AST) -> Tuple[ast.AST, int]:
    "list-valued entries of the metadata dictionaries written as tuples (what a Python caller may well send; the text wire format turns them into lists)"
    tree = copy.deepcopy(tree)
    n_changed = [0]

    class L(ast.NodeTransformer):
        def visit_List(self, n):
            n_changed[0] += 1
            return ast.Tuple([self.visit(x) for x in n.elts], ast.Load())

    class T(ast.NodeTransformer):
        def visit_Call(self, n):
            n = self.generic_visit(n)
            if isinstance(n.func, ast.Name) and n.func.id == "MetaData" and len(n.args) == 2 and isinstance(n.args[1], ast.Dict):
                n.args[1] = L().visit(n.args[1])
            return n
    return ast.fix_missing_locations(T().visit(tree)), n_changed[0]
