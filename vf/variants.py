"""Meaning-preserving rewrites of a query (C08): alpha-renaming with hostile names, metadata
re-attachment along the main chain, Select/Where fusion, call-style conversion."""
from __future__ import annotations

import ast
import copy
import random
from typing import Any, Dict, List, Optional, Set, Tuple

LINQ = {"Select", "SelectMany", "Where", "First", "Count", "Sum", "Min", "Max", "Aggregate"}
HOSTILE = ["e", "j", "Jets", "Muons", "pt", "eta", "sin", "abs", "result", "i_obj1", "i_obj2", "aggResult2", "arg_3", "arg_0", "xAOD", "Trig",
           "is_first3", "bool_op1", "if_else_result4", "collection_name", "obj_j", "cms_object", "x", "_col10", "lambda_arg", "token0", "jets0"]
RESERVED = {"ds", "EventDataset", "MetaData", "ResultTTree", "True", "False", "None"}


def parse(q: str) -> ast.AST:
    return ast.parse(q, mode="eval").body


def free_names(node: ast.AST) -> Set[str]:
    "names read free in an expression (lambda parameters bind)"
    if isinstance(node, ast.Lambda):
        bound = {a.arg for a in node.args.args}
        return free_names(node.body) - bound
    if isinstance(node, ast.Name):
        return {node.id}
    out: Set[str] = set()
    for c in ast.iter_child_nodes(node):
        out |= free_names(c)
    return out


def all_names(node: ast.AST) -> Set[str]:
    return {n.id for n in ast.walk(node) if isinstance(n, ast.Name)} | {a.arg for n in ast.walk(node) if isinstance(n, ast.Lambda) for a in n.args.args}


def _rename_bound(body: ast.AST, old: str, new: str) -> ast.AST:
    "rename free occurrences of `old` in body to `new` (stops at lambdas rebinding old)"
    class R(ast.NodeTransformer):
        def visit_Lambda(self, n):
            if any(a.arg == old for a in n.args.args):
                return n
            return self.generic_visit(n)

        def visit_Name(self, n):
            if n.id == old:
                return ast.copy_location(ast.Name(new, n.ctx), n)
            return n
    return R().visit(body)


def alpha_rename(tree: ast.AST, R: random.Random, pool: List[str] = HOSTILE) -> Tuple[ast.AST, int]:
    """Rename every lambda parameter (innermost first) to a random hostile name, respecting the
    alpha-conversion side condition: the new name must not be free in the lambda's body and must
    differ from the lambda's other parameters."""
    tree = copy.deepcopy(tree)
    n_renamed = [0]

    class T(ast.NodeTransformer):
        def visit_Lambda(self, n):
            self.generic_visit(n)
            params = [a.arg for a in n.args.args]
            for i, a in enumerate(n.args.args):
                fb = free_names(n.body)
                cands = [c for c in pool if c not in fb and c not in params and c not in RESERVED]
                # also forbid capturing: an INNER lambda binding the candidate would hide our parameter where it is used
                cands = [c for c in cands if not _would_be_captured(n.body, a.arg, c)]
                if not cands:
                    continue
                new = R.choice(cands)
                n.body = _rename_bound(n.body, a.arg, new)
                a.arg = new
                params[i] = new
                n_renamed[0] += 1
            return n
    out = T().visit(tree)
    return ast.fix_missing_locations(out), n_renamed[0]


def _would_be_captured(body: ast.AST, old: str, new: str) -> bool:
    "True if `old` occurs free inside a nested lambda that binds `new`"
    for n in ast.walk(body):
        if isinstance(n, ast.Lambda) and any(a.arg == new for a in n.args.args):
            if old in free_names(n.body) and not any(a.arg == old for a in n.args.args):
                return True
    return False


# ---------------------------------------------------------------- call style
def is_linq(n: ast.AST) -> Optional[str]:
    if isinstance(n, ast.Call):
        if isinstance(n.func, ast.Attribute) and n.func.attr in LINQ:
            return "method"
        if isinstance(n.func, ast.Name) and n.func.id in LINQ and n.args:
            return "function"
    return None


def to_style(tree: ast.AST, style: str) -> ast.AST:
    tree = copy.deepcopy(tree)

    class T(ast.NodeTransformer):
        def visit_Call(self, n):
            self.generic_visit(n)
            k = is_linq(n)
            if k == "method" and style == "function":
                return ast.Call(func=ast.Name(n.func.attr, ast.Load()), args=[n.func.value] + n.args, keywords=n.keywords)
            if k == "function" and style == "method":
                return ast.Call(func=ast.Attribute(n.args[0], n.func.id, ast.Load()), args=n.args[1:], keywords=n.keywords)
            return n
    return ast.fix_missing_locations(T().visit(tree))


def linq_name(n: ast.Call) -> str:
    return n.func.attr if isinstance(n.func, ast.Attribute) else n.func.id


def linq_src(n: ast.Call) -> ast.AST:
    return n.func.value if isinstance(n.func, ast.Attribute) else n.args[0]


def linq_args(n: ast.Call) -> List[ast.AST]:
    return n.args if isinstance(n.func, ast.Attribute) else n.args[1:]


def make_linq(like: ast.Call, name: str, src: ast.AST, args: List[ast.AST]) -> ast.Call:
    if isinstance(like.func, ast.Attribute):
        return ast.Call(func=ast.Attribute(src, name, ast.Load()), args=args, keywords=[])
    return ast.Call(func=ast.Name(name, ast.Load()), args=[src] + args, keywords=[])


# ---------------------------------------------------------------- fusion
def fuse(tree: ast.AST) -> Tuple[ast.AST, int]:
    """Select(Select(s, f), g) -> Select(s, lambda a: (g)(f_body));  Where(Where(s, f), g) -> Where(s, lambda a: f_body and g_body[b:=a])"""
    tree = copy.deepcopy(tree)
    count = [0]

    class T(ast.NodeTransformer):
        def visit_Call(self, n):
            self.generic_visit(n)
            if is_linq(n) and linq_name(n) in ("Select", "Where"):
                inner = linq_src(n)
                if is_linq(inner) and linq_name(inner) == linq_name(n):
                    g, f = linq_args(n)[0], linq_args(inner)[0]
                    if isinstance(g, ast.Lambda) and isinstance(f, ast.Lambda) and len(g.args.args) == 1 and len(f.args.args) == 1:
                        a = f.args.args[0].arg
                        if linq_name(n) == "Select":
                            body = ast.Call(func=copy.deepcopy(g), args=[copy.deepcopy(f.body)], keywords=[])
                        else:
                            b = g.args.args[0].arg
                            if a in free_names(g.body) and a != b:
                                return n  # would capture
                            if _would_be_captured(g.body, b, a):
                                return n
                            gb = _rename_bound(copy.deepcopy(g.body), b, a)
                            body = ast.BoolOp(op=ast.And(), values=[copy.deepcopy(f.body), gb])
                        count[0] += 1
                        lam = ast.Lambda(args=copy.deepcopy(f.args), body=body)
                        return make_linq(n, linq_name(n), linq_src(inner), [lam])
            return n
    return ast.fix_missing_locations(T().visit(tree)), count[0]


# ---------------------------------------------------------------- metadata placement
def main_chain(tree: ast.AST) -> List[ast.AST]:
    "nodes of the top-level chain from the outermost call down to the dataset"
    out = []
    n = tree
    while True:
        out.append(n)
        if isinstance(n, ast.Call):
            if isinstance(n.func, ast.Name) and n.func.id == "MetaData":
                n = n.args[0]
                continue
            if is_linq(n) and linq_name(n) in ("Select", "SelectMany", "Where"):
                n = linq_src(n)
                continue
        break
    return out


def strip_metadata(tree: ast.AST) -> Tuple[ast.AST, List[ast.AST]]:
    "remove MetaData calls from the main chain; returns (tree, metadata dict nodes outermost first)"
    tree = copy.deepcopy(tree)
    mds: List[ast.AST] = []

    def go(n):
        if isinstance(n, ast.Call):
            if isinstance(n.func, ast.Name) and n.func.id == "MetaData":
                mds.append(n.args[1])
                return go(n.args[0])
            if is_linq(n) and linq_name(n) in ("Select", "SelectMany", "Where"):
                src = go(linq_src(n))
                return make_linq(n, linq_name(n), src, linq_args(n))
        return n
    return go(tree), mds


def place_metadata(stripped: ast.AST, mds: List[ast.AST], depth: int) -> ast.AST:
    """Wrap the node `depth` steps down the main chain (0 = outermost call) with all metadata,
    keeping their relative (outermost-first) order."""
    def wrap(n):
        for m in reversed(mds):
            n = ast.Call(func=ast.Name("MetaData", ast.Load()), args=[n, copy.deepcopy(m)], keywords=[])
        return n

    def go(n, d):
        if d == 0:
            return wrap(n)
        if isinstance(n, ast.Call) and is_linq(n) and linq_name(n) in ("Select", "SelectMany", "Where"):
            return make_linq(n, linq_name(n), go(linq_src(n), d - 1), linq_args(n))
        return wrap(n)
    return ast.fix_missing_locations(go(copy.deepcopy(stripped), depth))


def chain_length(stripped: ast.AST) -> int:
    n, k = stripped, 0
    while isinstance(n, ast.Call) and is_linq(n) and linq_name(n) in ("Select", "SelectMany", "Where"):
        n = linq_src(n)
        k += 1
    return k
