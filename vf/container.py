"""Container model for runner.sh: the UNMODIFIED script runs inside a private mount namespace
(`unshare -m` + bind mounts + chroot) laid out like the experiment's docker container, with
logging / failing stub tools first on PATH.  A Container persists across invocations (that is
what "-r runs against a previous build" means); every invocation gets a RUN_ID the stub job
stamps into its output, so 'the output of THIS run' is observable."""
from __future__ import annotations

import os
import shutil
import subprocess
import time
from pathlib import Path
from typing import Any, Dict, List, Optional

from .core import Inconclusive

STUBS = Path(__file__).resolve().parent / "stubs"


def unshare_available() -> bool:
    r = subprocess.run(["unshare", "-m", "true"], capture_output=True)
    return r.returncode == 0


class Container:
    def __init__(self, root: Path, pkg: Path, backend: str, calib_cache: bool = False, filelist_in_scripts: Optional[str] = None,
                 filelist_in_cwd: Optional[str] = None):
        self.root = Path(root)
        self.backend = backend
        self.n = 0
        r = self.root
        for d in ["usr", "etc", "dev", "scripts", "results", "data", "home/atlas", "opt/cms", "tmp", "work", "stubs", "log"]:
            (r / d).mkdir(parents=True, exist_ok=True)
        for l, t in [("bin", "usr/bin"), ("lib", "usr/lib"), ("lib64", "usr/lib64"), ("sbin", "usr/sbin")]:
            if not (r / l).exists():
                os.symlink(t, r / l)
        # the package as the caller delivers it (/scripts is mounted read-only like LocalDataset does)
        self.pkgcopy = r / "pkgcopy"
        if self.pkgcopy.exists():
            shutil.rmtree(self.pkgcopy)
        shutil.copytree(pkg, self.pkgcopy)
        if filelist_in_scripts is not None:
            (self.pkgcopy / "filelist.txt").write_text(filelist_in_scripts)
        if filelist_in_cwd is not None:
            (r / "work" / "filelist.txt").write_text(filelist_in_cwd)
        if calib_cache:
            (r / "xaod_calibration_cache").mkdir(exist_ok=True)
        shutil.copy(STUBS / "release_setup.sh", r / "home/atlas/release_setup.sh")
        shutil.copy(STUBS / "cms_entrypoint.sh", r / "opt/cms/entrypoint.sh")

    def invoke(self, args: List[str], fail: str = "", env: Optional[Dict[str, str]] = None, timeout: int = 60) -> Dict[str, Any]:
        self.n += 1
        run_id = f"run{self.n}"
        r = self.root
        t_start = time.time()
        before = self._snapshot()
        qargs = " ".join("'" + a.replace("'", "'\\''") + "'" for a in args)
        extra_env = " ".join(f"{k}='{v}'" for k, v in (env or {}).items())
        script = f"""
set -e
mount --bind -o ro /usr {r}/usr 2>/dev/null || mount --bind /usr {r}/usr
mount --bind /etc {r}/etc
mount --bind /dev {r}/dev
mount --bind {STUBS} {r}/stubs
mount --bind {self.pkgcopy} {r}/scripts
mount -o remount,ro,bind {r}/scripts 2>/dev/null || true
exec chroot {r} /usr/bin/env -i PATH=/stubs/bin:/usr/bin:/bin HOME=/home/atlas MON_LOG=/log RUN_ID={run_id} FAIL='{fail}' {extra_env} /bin/bash -c 'cd /work && exec /scripts/runner.sh {qargs.replace("'", "'\\''")}'
"""
        for attempt in range(5):
            try:
                p = subprocess.run(["unshare", "-m", "bash", "-c", script], capture_output=True, text=True, timeout=timeout, errors="replace")
                rc, out, err = p.returncode, p.stdout, p.stderr
            except subprocess.TimeoutExpired:
                rc, out, err = -999, "", "TIMEOUT"
            # ETXTBSY: a process forked by ANOTHER harness thread while this container's copy of runner.sh was being written still holds
            # the file open for writing - the script never started; an artefact of the harness's parallelism, not an outcome
            if rc == 126 and "Text file busy" in err:
                time.sleep(0.3 * (attempt + 1))
                continue
            break
        if rc == 126 and "Text file busy" in err:
            rc, err = -999, "INFRASTRUCTURE: runner.sh could not be started (ETXTBSY) " + err   # inconclusive, never a verdict
        log = []
        lp = r / "log" / "commands.log"
        if lp.exists():
            for line in lp.read_text().splitlines():
                parts = line.split("\t")
                if len(parts) >= 3 and parts[0] == run_id:
                    log.append({"tool": parts[1], "cwd": parts[2], "argv": parts[3] if len(parts) > 3 else ""})
        # per-invocation tool counters restart for each runner invocation
        for f in (r / "log").glob("count.*"):
            f.unlink()
        after = self._snapshot()
        changed = {p: after[p] for p in after if before.get(p) != after[p]}
        return {"run_id": run_id, "rc": rc, "stdout": out[-1500:], "stderr": err[-1500:], "log": log, "changed": changed, "t_start": t_start}

    def _snapshot(self) -> Dict[str, Any]:
        "files under /results and /tmp/out* (possible destinations) with (mtime_ns, size)"
        snap = {}
        for base in ("results", "tmp"):
            for p in (self.root / base).rglob("*"):
                if p.is_file():
                    st = p.stat()
                    snap["/" + str(p.relative_to(self.root))] = (st.st_mtime_ns, st.st_size)
        return snap

    def read(self, path: str) -> Optional[str]:
        p = self.root / path.lstrip("/")
        return p.read_text(errors="replace") if p.is_file() else None

    def destroy(self):
        shutil.rmtree(self.root, ignore_errors=True)


def parse_output(text: Optional[str]) -> Optional[Dict[str, Any]]:
    "the stub job's output: RUN id, BUILT token, file list as the job saw it"
    if text is None:
        return None
    out: Dict[str, Any] = {"converted": False, "run": None, "built": None, "filelist": None}
    lines = text.split("\n")
    if lines and lines[0] == "CONVERTED":
        out["converted"] = True
        lines = lines[1:]
    fl, infl = [], False
    for l in lines:
        if l.startswith("RUN "):
            out["run"] = l[4:]
        elif l.startswith("BUILT "):
            out["built"] = l[6:]
        elif l == "FILELIST_BEGIN":
            infl = True
        elif l == "FILELIST_END":
            infl = False
        elif infl:
            fl.append(l)
    out["filelist"] = fl
    return out
