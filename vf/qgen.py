"""Seeded, typed, recursive generator of func_adl queries over a schema, covering the
documented fragment: Select, SelectMany, Where, Count/Sum/Min/Max/Aggregate-with-seed, First,
integer indexing, Range, + - * / % **, unary + - not, six comparisons, and/or, conditional,
math functions, tuple/list/dict plumbing, nested lambdas capturing outer parameters, the same
collection used several times, several collections, nested sequences in a column.

Types:  ('evt',) ('obj', cls) ('num', 'int'|'float'|'bool') ('seq', elemtype)
Every generated query carries a feature multiset (its signature) used for distinctness."""
from __future__ import annotations

import random
from collections import Counter
from typing import Any, Dict, List, Optional, Tuple

from .schema import py_kind

EVT = ("evt",)


def T_obj(cls):
    return ("obj", cls)


def T_num(kind):
    return ("num", kind)


def T_seq(el):
    return ("seq", el)


class QGen:
    def __init__(self, schema, R: random.Random, **opts):
        self.s = schema
        self.R = R
        self.feat: Counter = Counter()
        self.n = 0
        self.o = {
            "int_div": True,         # allow '/' between two ints
            "minmax": True,          # allow Min/Max shortcuts
            "mod": True,
            "pow": True,
            "math": True,
            "range": True,
            "range_computed": True,  # Range bound computed from data
            "first": True,
            "index": True,
            "agg_invariant": True,   # aggregate/First of a value not depending on the loop variable
            "agg_over_selectmany": True,
            "obj_rows_with_seq_col": True,
            "nullable": True,
            "fn_style": 0.25,        # probability of function-style call
            "float_members": True,
            "bool_arith": False,
            "max_cols": 3,
            "math_in_arith": True,
            "partial_bias": 0.0,     # extra weight on First/index (C04)
            "agg_computed_seed": True,   # Aggregate seed that is itself an aggregate
            "first_of_nested": True,     # First() of a sequence of sequences, used as a sequence
            "self_join": True,           # nested loop over the same collection VARIABLE
        }
        self.o.update(opts)

    # ---------------------------------------------------------- helpers
    def v(self) -> str:
        self.n += 1
        return f"v{self.n}"

    def f(self, k: str):
        self.feat[k] += 1

    def call(self, recv: str, name: str, *args: str) -> str:
        if self.R.random() < self.o["fn_style"]:
            return f"{name}({', '.join([recv, *args])})"
        return f"{recv}.{name}({', '.join(args)})"

    def members(self, cls: str, pred) -> List[Tuple[str, Dict[str, Any]]]:
        return [(n, m) for n, m in self.s["classes"][cls]["members"].items() if pred(m)]

    def vars_of(self, env, pred):
        return [(n, t) for n, t in env if pred(t)]

    def ch(self, options: List[Tuple[float, Any]]):
        tot = sum(w for w, _ in options)
        r = self.R.random() * tot
        for w, f in options:
            r -= w
            if r <= 0:
                return f
        return options[-1][1]

    # ---------------------------------------------------------- leaves
    def lit(self, kind: str) -> str:
        self.f("lit_" + kind)
        if kind == "int":
            return str(self.R.choice([0, 1, 1, 2, 2, 3, 5]))
        if kind == "bool":
            return self.R.choice(["True", "False"])
        return self.R.choice(["0.5", "1.5", "2.0", "3.0", "0.25", "10.0", "1e1", "2.5e-1"])

    def num_member(self, env, kind: Optional[str]) -> Optional[Tuple[str, str]]:
        "a numeric member of an object variable in scope: (text, kind)"
        objs = self.vars_of(env, lambda t: t[0] == "obj")
        self.R.shuffle(objs)
        for name, t in objs:
            ms = self.members(t[1], lambda m: m["k"] in ("num", "field", "fn") and (kind is None or py_kind(m["ctype"]) == kind)
                              and (self.o["float_members"] or m["ctype"] != "float"))
            if ms:
                mn, m = self.R.choice(ms)
                self.f("member_" + m["ctype"].replace(" ", "_"))
                if m["k"] == "field":
                    return f"{name}.{mn}", py_kind(m["ctype"])
                if m["k"] == "fn":
                    args = ", ".join(self.lit("int" if pt == "int" else "float") for _, pt in m["params"])
                    self.f("method_args")
                    return f"{name}.{mn}({args})", py_kind(m["ctype"])
                return f"{name}.{mn}()", py_kind(m["ctype"])
        return None

    # ---------------------------------------------------------- numbers
    def num(self, env, d: int, kind: Optional[str] = None, nonneg: bool = False) -> Tuple[str, str]:
        """numeric expression; returns (text, kind) with kind in int|float.  kind=None: either."""
        R = self.R
        want = kind or R.choice(["float", "float", "int"])
        opts: List[Tuple[float, Any]] = []

        def leaf():
            nums = self.vars_of(env, lambda t: t == T_num(want))
            c = []
            if nums:
                c += [lambda: (R.choice(nums)[0], want)] * 2
            mem = self.num_member(env, want)
            if mem:
                c += [lambda: mem] * 3
            c.append(lambda: (self.lit(want), want))
            return R.choice(c)()

        if d <= 0:
            return leaf()
        opts.append((3, leaf))

        def binop():
            op = R.choice(["+", "-", "*"] if not nonneg else ["+", "*"])
            if want == "int":
                a, _ = self.num(env, d - 1, "int", nonneg)
                b, _ = self.num(env, d - 1, "int", nonneg)
            else:
                ka = R.choice(["float", "float", "int"])
                a, _ = self.num(env, d - 1, ka, nonneg)
                b, _ = self.num(env, d - 1, "float" if ka == "int" else R.choice(["float", "int"]), nonneg)
                if R.random() < 0.5:
                    a, b = b, a
            self.f("binop" + op)
            return f"({a} {op} {b})", want
        opts.append((4, binop))

        if want == "float":
            def div():
                ka = R.choice(["float", "int"]) if self.o["int_div"] else "float"
                a, _ = self.num(env, d - 1, ka, nonneg)
                if ka == "int" and self.o["int_div"]:
                    b = R.choice(["2", "3", "4"]) if R.random() < 0.7 else f"({self.num(env, d - 1, 'int', True)[0]} + 1)"
                    self.f("int_div")
                else:
                    b = R.choice(["2.0", "4.0", "0.5", "2"]) if ka == "float" else "2.0"
                self.f("div")
                return f"({a} / {b})", "float"
            opts.append((2, div))

            if self.o["pow"]:
                def pw():
                    a, _ = self.num(env, d - 1, R.choice(["float", "int"]), nonneg)
                    e = R.choice(["2", "3", "2.0"])
                    self.f("pow")
                    return f"({a} ** {e})", "float"
                opts.append((1, pw))
            if self.o["math"]:
                def mth():
                    a, _ = self.num(env, d - 1, R.choice(["float", "int"]) if self.o["math_in_arith"] else "float")
                    fn = R.choice(["sin", "cos", "abs", "sqrt", "exp", "atan", "tanh", "floor", "ceil", "fabs"])
                    self.f("math_" + fn)
                    if fn == "sqrt":
                        return f"sqrt(abs({a}))", "float"
                    if fn == "exp":
                        return f"exp(({a}) / 100.0)", "float"
                    return f"{fn}({a})", "float"
                opts.append((1.5, mth))
        else:
            if self.o["mod"]:
                def mod():
                    # operands that stay integral in C++: no conditional / Min / Max (those are floating there)
                    a, _ = self.num(env, 0, "int", True)
                    if R.random() < 0.5:
                        b2, _ = self.num(env, 0, "int", True)
                        a = f"({a} + {b2})"
                    self.f("mod")
                    return f"({a} % {R.choice(['2', '3', '5'])})", "int"
                opts.append((1, mod))

            def cnt():
                el = self.any_elem()
                r = R.random()
                # also the number of OBJECTS in a sequence and the number of inner sequences in a sequence of sequences
                if r < 0.2 and self.o.get("count_of_nested", True) and d > 1:
                    try:
                        s = self.seq(env, d - 1, T_seq(el), True)
                        self.f("Count_of_nested")
                        return self.call(s, "Count"), "int"
                    except CannotGenerate:
                        pass
                elif r < 0.4:
                    cls = self.any_obj_cls(env)
                    if cls is not None:
                        try:
                            s = self.seq(env, d - 1, T_obj(cls), True)
                            self.f("Count_of_objects")
                            return self.call(s, "Count"), "int"
                        except CannotGenerate:
                            pass
                s = self.seq(env, d - 1, el, True)
                self.f("Count")
                return self.call(s, "Count"), "int"
            opts.append((3, cnt))

        if not nonneg:
            def neg():
                a, k = self.num(env, d - 1, want)
                self.f("neg" if R.random() < 0.8 else "uadd")
                return (f"(-{a})" if R.random() < 0.8 else f"(+{a})"), k
            opts.append((1, neg))

        def ifexp():
            # a conditional is floating in the generated code (C03/C13), so it is only formed where a float is wanted;
            # its arms may still be integers
            t = self.boolean(env, d - 1)
            ka = R.choice(["float", "float", "int"])
            a, _ = self.num(env, d - 1, ka, nonneg)
            b, _ = self.num(env, d - 1, ka if R.random() < 0.7 else R.choice(["float", "int"]), nonneg)
            self.f("ifexp")
            return f"({a} if {t} else {b})", "float"
        if want == "float":
            opts.append((2, ifexp))

        def agg():
            s = self.seq(env, d - 1, T_num(want), True)
            which = R.choice(["Sum", "Sum", "Aggregate"] + (["Max", "Min"] if self.o["minmax"] and want == "float" else []))
            self.f(which)
            if which == "Aggregate":
                a, x = self.v(), self.v()
                seed = self.lit(want)
                if self.o["agg_computed_seed"] and d > 1 and R.random() < 0.2:
                    try:
                        seed = self.call(self.seq(env, d - 2, self.any_elem(), True), "Count")
                        self.f("Aggregate_computed_seed")
                        # ... bare, or inside an expression (a product, a sum with a member, a negative literal beside it)
                        form = R.choice(["bare", "bare", "times", "plus", "minus_lit"])
                        if form != "bare":
                            self.f("Aggregate_computed_seed_in_expression")
                            other = self.num(env, 0, want, True)[0] if form == "plus" else None
                            seed = {"times": f"{seed} * 100", "plus": f"({other} + {seed})", "minus_lit": f"({seed} - 1)"}[form]
                    except CannotGenerate:
                        pass
                elif R.random() < 0.25:
                    # a seed that is not a plain literal node: a negative number, a small constant expression
                    seed = R.choice(["-1", "(0 - 2)", "(1 + 1)", "-0.5" if want == "float" else "-3"])
                    self.f("Aggregate_non_literal_constant_seed")
                body = R.choice([f"{a} + {x}", f"{a} + {x} * 2", f"{a} - {x}", f"{x} + {a}"])
                if want == "float" and R.random() < 0.3:
                    body = f"{a} + {x} / 2.0"
                return self.call(s, "Aggregate", seed, f"lambda {a}, {x}: {body}"), want
            return self.call(s, which), want
        opts.append((3, agg))

        if self.o["first"]:
            def first():
                s = self.seq(env, d - 1, T_num(want), True)
                self.f("First_num")
                return self.call(s, "First"), want

            def first_obj():
                cls = self.any_obj_cls(env)
                if cls is None:
                    return leaf()
                s = self.seq(env, d - 1, T_obj(cls), True)
                ms = self.members(cls, lambda m: m["k"] == "num" and py_kind(m["ctype"]) == want and (self.o["float_members"] or m["ctype"] != "float"))
                if not ms:
                    return leaf()
                self.f("First_obj")
                return f"{self.call(s, 'First')}.{R.choice(ms)[0]}()", want
            w = 1.5 + self.o["partial_bias"]
            opts += [(w, first), (w, first_obj)]

        if self.o["index"]:
            def index():
                objs = self.vars_of(env, lambda t: t[0] == "obj")
                cands = []
                for name, t in objs:
                    for mn, m in self.members(t[1], lambda m: m["k"] == "vec" and py_kind(m["ctype"]) == want and (self.o["float_members"] or m["ctype"] != "float")):
                        cands.append(f"{name}.{mn}()")
                if not cands:
                    return leaf()
                self.f("index_vec")
                return f"{R.choice(cands)}[{R.choice([0, 0, 1, 2])}]", want

            def index_coll():
                evs = self.vars_of(env, lambda t: t == EVT)
                if not evs:
                    return leaf()
                coll, bank, cls = self.pick_collection()
                ms = self.members(cls, lambda m: m["k"] == "num" and py_kind(m["ctype"]) == want and (self.o["float_members"] or m["ctype"] != "float"))
                if not ms:
                    return leaf()
                self.f("index_coll")
                return f"{R.choice(evs)[0]}.{coll}('{bank}')[{R.choice([0, 0, 1, 2])}].{R.choice(ms)[0]}()", want
            w = 1 + self.o["partial_bias"]
            opts += [(w, index), (w, index_coll)]

        def tup():
            # the element that is NOT selected is discarded statically by func_adl's normaliser, so it must
            # not hold a partial operation (Python would still evaluate it): generate both without First/index
            saved = (self.o["first"], self.o["index"])
            self.o["first"] = self.o["index"] = False
            try:
                a, _ = self.num(env, d - 1, want, nonneg)
                b, _ = self.num(env, d - 1, want, nonneg)
            finally:
                self.o["first"], self.o["index"] = saved
            self.f("tuple_index")
            if R.random() < 0.5:
                return f"({a}, {b})[{R.choice([0, 1])}]", want
            return f"{{'p': {a}, 'q': {b}}}['{R.choice('pq')}']", want
        opts.append((0.7, tup))

        if self.o["nullable"]:
            def nullable():
                r = self.nullable_access(env, want)
                return r if r else leaf()
            opts.append((1, nullable))

        try:
            txt, k = self.ch(opts)()
        except CannotGenerate:
            txt, k = leaf()
        return txt, k

    def nullable_access(self, env, want) -> Optional[Tuple[str, str]]:
        "guarded access through a nullable link:  x.link().m() if <guard> else c"
        objs = self.vars_of(env, lambda t: t[0] == "obj")
        self.R.shuffle(objs)
        for name, t in objs:
            links = self.members(t[1], lambda m: m["k"] == "obj" and m.get("nullable"))
            for ln, lm in links:
                ms = self.members(lm["cls"], lambda m: m["k"] == "num" and py_kind(m["ctype"]) == want and (self.o["float_members"] or m["ctype"] != "float"))
                if not ms:
                    continue
                flag = {"leadTrack": "hasLead", "prodVtx": "hasProd", "parent": "hasParent", "globalTrack": "hasLead"}.get(ln)
                guards = []
                if flag and flag in self.s["classes"][t[1]]["members"]:
                    guards.append(f"{name}.{flag}()")
                if lm.get("ref"):
                    guards.append(f"isNonnull({name}.{ln}())")
                if not guards:
                    continue
                g = self.R.choice(guards)
                acc = f"{name}.{ln}().{self.R.choice(ms)[0]}()"
                self.f("nullable_guard")
                dflt = self.lit(want)
                form = self.R.choice(["ifexp", "ifexp", "and"])
                if form == "ifexp" or want != "float":
                    return f"({acc} if {g} else {dflt})", want
                return f"(1.0 if ({g} and {acc} > 1.0) else 0.0)", "float"
        return None

    # ---------------------------------------------------------- booleans
    def boolean(self, env, d: int) -> str:
        R = self.R

        def cmp():
            k = R.choice(["float", "float", "int"])
            a, _ = self.num(env, max(d - 1, 0), k)
            b, _ = self.num(env, max(d - 1, 0), k if R.random() < 0.7 else R.choice(["float", "int"]))
            op = R.choice(["<", ">", "<=", ">=", "==", "!="]) if k == "int" else R.choice(["<", ">", "<=", ">="])
            self.f("cmp" + op)
            return f"({a} {op} {b})"

        def member():
            objs = self.vars_of(env, lambda t: t[0] == "obj")
            cands = [f"{n}.{mn}()" for n, t in objs for mn, m in self.members(t[1], lambda m: m["k"] == "num" and m["ctype"] == "bool")]
            if not cands:
                return cmp()
            self.f("member_bool")
            return R.choice(cands)
        opts: List[Tuple[float, Any]] = [(4, cmp), (1.5, member)]
        if self.o["first"]:
            def first_cmp():
                # a partial operation as an operand of the comparison itself (conditional tests, Where predicates)
                try:
                    sq = self.seq(env, max(d - 1, 0), T_num("float"), True)
                except CannotGenerate:
                    return cmp()
                self.f("First_in_test")
                return f"({self.call(sq, 'First')} {R.choice(['<', '>', '<=', '>='])} {self.lit('float')})"
            opts.append((0.5 + self.o["partial_bias"] * 0.5, first_cmp))
        if d > 0:
            def bop():
                op = R.choice(["and", "or"])
                self.f(op)
                n = R.choice([2, 2, 3])
                return "(" + f" {op} ".join(self.boolean(env, d - 1) for _ in range(n)) + ")"

            def nt():
                self.f("not")
                return f"(not {self.boolean(env, d - 1)})"

            def guard():
                # the canonical protecting guard:  Count() > 0 and First()...
                cls = self.any_obj_cls(env)
                if cls is None or not self.o["first"]:
                    return cmp()
                s = self.seq(env, d - 1, T_obj(cls), True)
                ms = self.members(cls, lambda m: m["k"] == "num" and py_kind(m["ctype"]) == "float" and (self.o["float_members"] or m["ctype"] != "float"))
                self.f("guard_count_first")
                return f"({self.call(s, 'Count')} > 0 and {self.call(s, 'First')}.{R.choice(ms)[0]}() > {self.lit('float')})"
            opts += [(2, bop), (1, nt), (0.8 + self.o["partial_bias"], guard)]
        return self.ch(opts)()

    # ---------------------------------------------------------- sequences
    def any_obj_cls(self, env) -> Optional[str]:
        if self.vars_of(env, lambda t: t == EVT):
            return self.s["collections"][self.s["main"]["coll"]]["element"]
        sv = self.vars_of(env, lambda t: t[0] == "seq" and t[1][0] == "obj")
        if sv:
            return sv[0][1][1][1]
        objs = self.vars_of(env, lambda t: t[0] == "obj")
        for n, t in objs:
            ov = self.members(t[1], lambda m: m["k"] == "objvec")
            if ov:
                return ov[0][1]["cls"]
        return None

    def any_elem(self):
        return self.R.choice([T_num("float"), T_num("float"), T_num("int")])

    def pick_collection(self) -> Tuple[str, str, str]:
        main = self.s["main"]
        if self.R.random() < 0.85 or "others" not in main:
            coll = main["coll"]
            bank = self.R.choice(main["banks"])
        else:
            coll, bank = self.R.choice(main["others"])
        self.f("coll_" + coll)
        return coll, bank, self.s["collections"][coll]["element"]

    def body_env(self, env, src: str):
        "environment for a lambda body: without the sequence variable the lambda loops over, unless self-joins are allowed"
        if self.o["self_join"]:
            return env
        return [(n, t) for n, t in env if n != src]

    def seq(self, env, d: int, el, agg: bool = False) -> str:
        """sequence expression with element type el"""
        R = self.R
        opts: List[Tuple[float, Any]] = []
        evs = self.vars_of(env, lambda t: t == EVT)
        objs = self.vars_of(env, lambda t: t[0] == "obj")
        seqvars = self.vars_of(env, lambda t: t == T_seq(el))
        if seqvars:
            opts.append((2, lambda: R.choice(seqvars)[0]))
        if el[0] == "obj":
            cls = el[1]
            main_el = self.s["collections"][self.s["main"]["coll"]]["element"]
            if evs and cls == main_el:
                def coll():
                    c, b, _ = self.pick_collection()
                    if self.s["collections"][c]["element"] != cls:
                        c, b = self.s["main"]["coll"], R.choice(self.s["main"]["banks"])
                    return f"{R.choice(evs)[0]}.{c}('{b}')"
                opts.append((4, coll))
            for n, t in objs:
                for mn, m in self.members(t[1], lambda m: m["k"] == "objvec" and m["cls"] == cls):
                    opts.append((3, (lambda n=n, mn=mn: (self.f("objvec_member"), f"{n}.{mn}()")[1])))
            if not opts:
                raise CannotGenerate(f"no source for seq of {cls}")
            if d > 0:
                def where():
                    x = self.v()
                    src = self.seq(env, d - 1, el, agg)
                    self.f("Where_obj")
                    return self.call(src, "Where", f"lambda {x}: {self.boolean(self.body_env(env, src) + [(x, el)], d - 1)}")
                opts.append((3, where))
                if evs and (self.o["agg_over_selectmany"] or not agg):
                    sub = [(mn, m) for mn, m in self.members(main_el, lambda m: m["k"] == "objvec" and m["cls"] == cls)]
                    if sub:
                        def smany():
                            x = self.v()
                            src = self.seq(env, d - 1, T_obj(main_el), agg)
                            self.f("SelectMany_inner_obj")
                            return self.call(src, "SelectMany", f"lambda {x}: {x}.{R.choice(sub)[0]}()")
                        opts.append((1, smany))
            return self.ch(opts)()
        if el[0] == "num":
            kind = el[1]
            for n, t in objs:
                for mn, m in self.members(t[1], lambda m: m["k"] == "vec" and py_kind(m["ctype"]) == kind and (self.o["float_members"] or m["ctype"] != "float")):
                    opts.append((2, (lambda n=n, mn=mn: (self.f("vec_member"), f"{n}.{mn}()")[1])))
            if kind == "int" and self.o["range"]:
                def rng():
                    self.f("Range")
                    lo = R.choice(["0", "0", "1"])
                    if self.o["range_computed"] and d > 0 and R.random() < 0.25:
                        # data-dependent LOWER bound with a fixed length
                        base, _ = self.num(env, 0, "int", True)
                        self.f("Range_computed_lower")
                        return f"Range({base}, {base} + {R.choice(['1', '2', '3'])})"
                    if self.o["range_computed"] and d > 0 and R.random() < 0.5:
                        hi, _ = self.num(env, d - 1, "int", True)
                        self.f("Range_computed")
                    else:
                        hi = R.choice(["2", "3", "4"])
                    return f"Range({lo}, {hi})"
                opts.append((1.5, rng))
            if d > 0:
                def select():
                    # element source: object sequence or numeric sequence
                    srcs = []
                    cls = self.any_obj_cls(env)
                    if cls is not None:
                        srcs.append(T_obj(cls))
                    srcs.append(T_num(R.choice(["float", "int"])))
                    st = R.choice(srcs)
                    try:
                        src = self.seq(env, d - 1, st, agg)
                    except CannotGenerate:
                        st = T_num("int")
                        src = self.seq(env, d - 1, st, agg)
                    x = self.v()
                    body, _ = self.num(self.body_env(env, src) + [(x, st)], d - 1, kind)
                    self.f("Select")
                    return self.call(src, "Select", f"lambda {x}: {body}")

                def where():
                    x = self.v()
                    src = self.seq(env, d - 1, el, agg)
                    self.f("Where_num")
                    return self.call(src, "Where", f"lambda {x}: {self.boolean(self.body_env(env, src) + [(x, el)], d - 1)}")

                def smany():
                    cls = self.any_obj_cls(env)
                    if cls is None:
                        return select()
                    x = self.v()
                    src = self.seq(env, d - 1, T_obj(cls), agg)
                    inner = self.seq(env + [(x, T_obj(cls))], d - 1, el, agg)
                    self.f("SelectMany_inner")
                    return self.call(src, "SelectMany", f"lambda {x}: {inner}")
                opts += [(5, select), (2, where)]
                if self.o["agg_over_selectmany"] or not agg:
                    opts.append((1, smany))
                if self.o["first_of_nested"] and self.o["first"] and d > 1:
                    def first_nested():
                        inner = self.seq(env, d - 1, T_seq(el))
                        self.f("First_of_nested")
                        return self.call(inner, "First")
                    opts.append((0.5, first_nested))
            if not opts:
                return self.seq_fallback(env, kind)
            try:
                return self.ch(opts)()
            except CannotGenerate:
                return self.seq_fallback(env, kind)
        if el[0] == "seq":
            # sequence of sequences: Select over objects producing an inner sequence
            cls = self.any_obj_cls(env)
            if cls is None:
                raise CannotGenerate("no nested source")
            x = self.v()
            src = self.seq(env, max(d - 1, 0), T_obj(cls))
            inner = self.seq(env + [(x, T_obj(cls))], max(d - 1, 0), el[1])
            self.f("Select_nested")
            return self.call(src, "Select", f"lambda {x}: {inner}")
        raise CannotGenerate(str(el))

    def seq_fallback(self, env, kind: str) -> str:
        "a numeric sequence that can always be formed"
        cls = self.any_obj_cls(env)
        if cls is not None:
            try:
                src = self.seq(env, 0, T_obj(cls))
                ms = self.members(cls, lambda m: m["k"] == "num" and py_kind(m["ctype"]) == kind and (self.o["float_members"] or m["ctype"] != "float"))
                if ms:
                    x = self.v()
                    self.f("Select")
                    return self.call(src, "Select", f"lambda {x}: {x}.{self.R.choice(ms)[0]}()")
            except CannotGenerate:
                pass
        self.f("Range")
        if kind == "int":
            return "Range(0, 3)"
        x = self.v()
        self.f("Select")
        return self.call("Range(0, 3)", "Select", f"lambda {x}: {x} * 0.5")

    # ---------------------------------------------------------- columns and whole queries
    def column(self, env, d: int, allow_seq=True, allow_nested=True) -> Tuple[str, str]:
        "one output column: (text, shape) with shape in scalar|list|list2"
        R = self.R
        r = R.random()
        try:
            if r < 0.45 or not allow_seq:
                if R.random() < 0.15:
                    self.f("col_bool")
                    return self.boolean(env, d), "scalar"
                self.f("col_scalar")
                return self.num(env, d)[0], "scalar"
            if r < 0.85 or not allow_nested:
                self.f("col_list")
                return self.seq(env, d, self.any_elem()), "list"
            self.f("col_list2")
            return self.seq(env, d, T_seq(self.any_elem())), "list2"
        except CannotGenerate:
            return self.num(env, d)[0], "scalar"

    def structure(self, env, d, allow_seq=True, allow_nested=True) -> Tuple[str, List[str]]:
        R = self.R
        form = R.choice(["one", "tuple", "tuple", "list", "dict", "dict"])
        self.f("form_" + form)
        self.last_form = form
        if form == "one":
            c, sh = self.column(env, d, allow_seq, allow_nested)
            return c, [sh]
        n = R.randint(2, self.o["max_cols"]) if form != "dict" else R.randint(1, self.o["max_cols"])
        cols = [self.column(env, d, allow_seq, allow_nested) for _ in range(n)]
        if form == "tuple":
            return "(" + ", ".join(c for c, _ in cols) + ")", [s for _, s in cols]
        if form == "list":
            return "[" + ", ".join(c for c, _ in cols) + "]", [s for _, s in cols]
        return "{" + ", ".join(f"'c{i}': {c}" for i, (c, _) in enumerate(cols)) + "}", [s for _, s in cols]

    def query(self, d: int) -> Dict[str, Any]:
        """A whole query.  Returns {'query', 'features', 'shapes', 'rows': 'event'|'object'}"""
        R = self.R
        self.feat = Counter()
        self.n = 0
        main = self.s["main"]
        main_cls = self.s["collections"][main["coll"]]["element"]
        src = "ds"
        e = self.v()
        env = [(e, EVT)]
        if R.random() < 0.2:
            self.f("Where_event")
            src = self.call(src, "Where", f"lambda {e}: {self.boolean(env, d - 1)}")
            e = self.v()
            env = [(e, EVT)]
        rows = "event"
        r = R.random()
        if r < 0.3:
            # per-object rows
            rows = "object"
            self.f("SelectMany_top")
            src = self.call(src, "SelectMany", f"lambda {e}: {self.seq(env, d - 1, T_obj(main_cls))}")
            j = self.v()
            env = [(j, T_obj(main_cls))]
            if R.random() < 0.3:
                self.f("Where_object")
                src = self.call(src, "Where", f"lambda {j}: {self.boolean(env, d - 1)}")
                j = self.v()
                env = [(j, T_obj(main_cls))]
            var = j
        elif r < 0.45:
            # plumbing: first select a tuple/dict of collections, then use it
            self.f("plumbing")
            c1 = f"{e}.{main['coll']}('{R.choice(main['banks'])}')"
            c2 = f"{e}.{main['coll']}('{R.choice(main['banks'])}')"
            t = self.v()
            if R.random() < 0.5:
                src = self.call(src, "Select", f"lambda {e}: ({c1}, {c2})")
                # func_adl resolves t[0] statically; model it by binding fresh names via nested lambdas is not possible in text,
                # so expand directly
                env = [(f"{t}[0]", T_seq(T_obj(main_cls))), (f"{t}[1]", T_seq(T_obj(main_cls)))]
            else:
                src = self.call(src, "Select", f"lambda {e}: {{'a': {c1}, 'b': {c2}}}")
                acc = R.choice(["['a']", ".a"]), R.choice(["['b']", ".b"])
                env = [(f"{t}{acc[0]}", T_seq(T_obj(main_cls))), (f"{t}{acc[1]}", T_seq(T_obj(main_cls)))]
            var = t
        else:
            var = e
        allow_seq = rows == "event" or self.o["obj_rows_with_seq_col"]
        body, shapes = self.structure(env, d, allow_seq=allow_seq)
        q = self.call(src, "Select", f"lambda {var}: {body}")
        if R.random() < 0.15 and len(shapes) > 0:
            # a second, projecting Select (Select of Select)
            self.f("Select_of_Select")
            t2 = self.v()
            # every column is kept (a dropped column would be discarded statically by the normaliser,
            # and with it any partial operation the query "asked for" in Python's reading)
            if self.last_form in ("tuple", "list"):
                idx = list(range(len(shapes)))
                R.shuffle(idx)
                proj = "(" + ", ".join(f"{t2}[{i}]" for i in idx) + ("," if len(idx) == 1 else "") + ")"
                shapes = [shapes[i] for i in idx]
                q = self.call(q, "Select", f"lambda {t2}: {proj}")
            elif self.last_form == "dict":
                keys = [f"c{i}" for i in range(len(shapes))]
                R.shuffle(keys)
                proj = "{" + ", ".join(f"'{k}': {t2}{R.choice([f'[{k!r}]', '.' + k])}" for k in keys) + "}"
                shapes = [shapes[int(k[1:])] for k in keys]
                q = self.call(q, "Select", f"lambda {t2}: {proj}")
            else:
                self.feat["Select_of_Select"] -= 1
        self.f("rows_" + rows)
        return {"query": q, "features": dict(self.feat), "shapes": shapes, "rows": rows}


class CannotGenerate(Exception):
    pass


def signature(features: Dict[str, int]) -> str:
    "distinctness key: the multiset of operators (literal/member choices collapsed)"
    core = sorted((k, v) for k, v in features.items() if not k.startswith(("lit_", "member_", "coll_", "form_", "col_")))
    return repr(core)


def nontrivial(features: Dict[str, int]) -> bool:
    ops = sum(v for k, v in features.items() if not k.startswith(("lit_", "member_", "coll_", "form_", "col_", "rows_")))
    return ops >= 2
