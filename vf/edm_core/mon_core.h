// Monitor core of the model event data model: event log, type-name traits, value printer,
// generic object store, event-file parser.  Everything the emitted C++ touches at run time
// goes through these functions, so the log is the observation the oracles decide on.
#pragma once
#include <cmath>
#include <cstdio>
#include <cstring>
#include <deque>
#include <fstream>
#include <functional>
#include <iostream>
#include <map>
#include <memory>
#include <numeric>
#include <sstream>
#include <stdexcept>
#include <string>
#include <typeinfo>
#include <utility>
#include <vector>

// a container class "of the experiment" that is not spelled std::vector<...> (declared through return_type_collection)
namespace ana { typedef std::vector<float> FloatList; }

namespace mon {
inline std::ostream &out() { return std::cout; }
inline std::string hex(const std::string &s) {
  static const char *d = "0123456789abcdef"; std::string r;
  for (unsigned char c : s) { r += d[c >> 4]; r += d[c & 15]; }
  return r.empty() ? std::string("-") : r;
}
inline std::string unhex(const std::string &h) {
  if (h == "-") return ""; std::string r;
  for (size_t i = 0; i + 1 < h.size(); i += 2) r += (char)std::stoi(h.substr(i, 2), nullptr, 16);
  return r;
}
// ---- exact C++ type names of whatever gets booked / declared
template <class T> std::string pretty() {
  std::string p = __PRETTY_FUNCTION__;  // "... [T = std::vector<float>]"
  auto a = p.find("T = "); auto b = p.rfind(']');
  return (a == std::string::npos) ? p : p.substr(a + 4, b - a - 4);
}
// ---- value printer (bit-exact for floating types)
inline void pv(std::ostream &o, bool v) { o << (v ? "true" : "false"); }
inline void pv(std::ostream &o, char v) { o << (int)v; }
inline void pv(std::ostream &o, short v) { o << v; }
inline void pv(std::ostream &o, int v) { o << v; }
inline void pv(std::ostream &o, unsigned int v) { o << v; }
inline void pv(std::ostream &o, long v) { o << v; }
inline void pv(std::ostream &o, unsigned long v) { o << v; }
inline void pv(std::ostream &o, long long v) { o << v; }
inline void pv(std::ostream &o, unsigned long long v) { o << v; }
inline void pv(std::ostream &o, float v) { char b[64]; snprintf(b, 64, "%.9g", (double)v); o << b; }
inline void pv(std::ostream &o, double v) { char b[64]; snprintf(b, 64, "%.17g", v); o << b; }
inline void pv(std::ostream &o, const std::string &v) { o << "s:" << hex(v); }
template <class T> void pv(std::ostream &o, const std::vector<T> &v);
template <class T> auto pv_any(std::ostream &o, const T &v, int) -> decltype(pv(o, v), void()) { pv(o, v); }
template <class T> void pv_any(std::ostream &o, const T &, long) { o << "<unprintable:" << pretty<T>() << ">"; }
template <class T> void pv(std::ostream &o, const std::vector<T> &v) {
  o << "["; bool f = true;
  for (auto it = v.begin(); it != v.end(); ++it) { if (!f) o << ","; f = false; T x = *it; pv_any(o, x, 0); }
  o << "]";
}

// ---- generic object store
struct Obj {
  int id = 0; std::string cls;
  std::map<std::string, double> d;
  std::map<std::string, std::vector<double>> v;
  std::map<std::string, const Obj *> l;
  std::map<std::string, std::vector<const Obj *>> lv;
  std::map<std::string, std::string> s;
  double num(const char *k) const { auto it = d.find(k); if (it == d.end()) { out() << "MODEL_MISSING num " << cls << "." << k << "\n"; throw std::logic_error(std::string("model: no member ") + k); } return it->second; }
  const std::vector<double> &vec(const char *k) const { auto it = v.find(k); if (it == v.end()) { out() << "MODEL_MISSING vec " << cls << "." << k << "\n"; throw std::logic_error(std::string("model: no member ") + k); } return it->second; }
  const Obj *link(const char *k) const { auto it = l.find(k); if (it == l.end()) { out() << "MODEL_MISSING link " << cls << "." << k << "\n"; throw std::logic_error(std::string("model: no member ") + k); } return it->second; }
  const std::vector<const Obj *> &links(const char *k) const { auto it = lv.find(k); if (it == lv.end()) { out() << "MODEL_MISSING links " << cls << "." << k << "\n"; throw std::logic_error(std::string("model: no member ") + k); } return it->second; }
};
struct Bank { std::string ctype, name; std::vector<const Obj *> objs; };
struct Event {
  std::deque<Obj> objs; std::map<int, Obj *> byid; std::vector<Bank> banks;
  const Bank *find(const std::string &ctype, const std::string &name) const {
    for (auto &b : banks) if (b.ctype == ctype && b.name == name) return &b;
    return nullptr;
  }
};
template <class T> std::vector<T> cast_vec(const std::vector<double> &x) { std::vector<T> r; for (double d : x) r.push_back((T)d); return r; }
// wrapper objects (model classes are views {const Obj *o}); stable addresses
template <class T> const T *wrap(const Obj *o) {
  if (!o) return nullptr;
  static std::map<const Obj *, T> cache;
  auto it = cache.find(o);
  if (it == cache.end()) { T t; t.o = o; t.mon_fill(); it = cache.emplace(o, t).first; }
  return &it->second;
}
template <class T> std::vector<const T *> wrap_all(const std::vector<const Obj *> &v) { std::vector<const T *> r; for (auto o : v) r.push_back(wrap<T>(o)); return r; }
template <class T> std::vector<T> wrap_all_val(const std::vector<const Obj *> &v) { std::vector<T> r; for (auto o : v) { T t; t.o = o; t.mon_fill(); r.push_back(t); } return r; }

inline std::vector<std::string> split(const std::string &s, char c) { std::vector<std::string> r; std::string t; std::istringstream ss(s); while (std::getline(ss, t, c)) r.push_back(t); return r; }

inline std::vector<std::unique_ptr<Event>> read_events(const char *path) {
  std::vector<std::unique_ptr<Event>> evs; std::ifstream in(path); std::string line;
  struct Pending { Obj *o; std::string k; std::string ids; bool many; };
  std::vector<Pending> pend;
  auto resolve = [&]() { if (evs.empty()) return; Event &e = *evs.back();
    for (auto &p : pend) { if (!p.many) { p.o->l[p.k] = (p.ids == "null") ? nullptr : e.byid.at(std::stoi(p.ids)); }
      else { auto &dst = p.o->lv[p.k]; for (auto &t : split(p.ids, ';')) if (!t.empty()) dst.push_back(e.byid.at(std::stoi(t))); } }
    pend.clear(); };
  while (std::getline(in, line)) { std::istringstream ss(line); std::string w; ss >> w;
    if (w == "EVENT") { resolve(); evs.emplace_back(new Event()); }
    else if (w == "O") { Event &e = *evs.back(); e.objs.emplace_back(); Obj &o = e.objs.back(); ss >> o.id >> o.cls; e.byid[o.id] = &o; std::string kv;
      while (ss >> kv) { auto p = kv.find('='); std::string k = kv.substr(0, p), v = kv.substr(p + 1); auto c = k.find(':'); std::string kind = k.substr(0, c), name = k.substr(c + 1);
        if (kind == "num") o.d[name] = std::stod(v);
        else if (kind == "vec") { auto &dst = o.v[name]; for (auto &t : split(v, ';')) if (!t.empty()) dst.push_back(std::stod(t)); }
        else if (kind == "lnk") pend.push_back({&o, name, v, false});
        else if (kind == "lv") pend.push_back({&o, name, v, true});
        else if (kind == "str") o.s[name] = unhex(v);
        else if (kind == "hnum") o.d["attr:" + unhex(name)] = std::stod(v);
        else if (kind == "hvec") { auto &dst = o.v["attr:" + unhex(name)]; for (auto &t : split(v, ';')) if (!t.empty()) dst.push_back(std::stod(t)); } } }
    else if (w == "BANK") { resolve(); Event &e = *evs.back(); Bank b; std::string hn, ids; ss >> b.ctype >> hn >> ids; b.ctype = unhex(b.ctype); b.name = unhex(hn);
      for (auto &t : split(ids, ';')) if (!t.empty() && t != "-") b.objs.push_back(e.byid.at(std::stoi(t))); e.banks.push_back(b); } }
  resolve();
  return evs;
}
// container-type name trait (specialised next to every generated container typedef)
template <class T> struct cname { static std::string get() { return pretty<T>(); } };
#define MON_CNAME(T, S) namespace mon { template <> struct cname<T> { static std::string get() { return S; } }; }
}  // namespace mon

// echo helpers for injected functions (C11 / C18): log exactly what arrived
inline int mon_echo_str(const std::string &s) { mon::out() << "ECHO kind=str value=" << mon::hex(s) << "\n"; return (int)s.size(); }
inline double mon_echo_num(double v) { char b[64]; snprintf(b, 64, "%.17g", v); mon::out() << "ECHO kind=num value=" << b << "\n"; return v; }

// ---- stand-in TTree: logs booking, reads rows THROUGH the bound addresses at Fill()
class TTree {
public:
  std::string name;
  struct Br { std::string name; void *addr; std::function<void(std::ostream &)> print; };
  std::vector<Br> branches;
  TTree(const char *n, const char * = "") : name(n) {}
  TTree(const TTree &) = default;
  template <class T> void Branch(const char *bn, T *addr) {
    mon::out() << "BRANCH tree=" << mon::hex(name) << " name=" << mon::hex(bn) << " type=" << mon::hex(mon::pretty<T>()) << " addr=" << (void *)addr << "\n";
    branches.push_back({bn, (void *)addr, [addr](std::ostream &o) { mon::pv_any(o, *addr, 0); }});
  }
  int Fill() {
    mon::out() << "FILL tree=" << mon::hex(name);
    for (auto &b : branches) { mon::out() << " " << mon::hex(b.name) << "="; b.print(mon::out()); }
    mon::out() << "\n";
    return 1;
  }
};
