// Model of the AnalysisBase shell the ATLAS templates are written against.
#pragma once
#include "mon_core.h"

struct StatusCode {
  enum V { SUCCESS = 1, FAILURE = 0 } v;
  StatusCode(V x = SUCCESS) : v(x) {}
  bool isFailure() const { return v == FAILURE; }
  bool isSuccess() const { return v == SUCCESS; }
  void ignore() const {}
};
#define ANA_CHECK(X) do { if ((X).isFailure()) { mon::out() << "ANA_CHECK_FAIL\n"; return StatusCode::FAILURE; } } while (0)

// messaging macros of the real AnaAlgorithm base (AsgMessaging): logged, never fatal
#define MON_MSG(LVL, X) do { std::ostringstream mon_s; mon_s << X; mon::out() << "MSG level=" LVL " text=" << mon::hex(mon_s.str()) << "\n"; } while (0)
#define ANA_MSG_DEBUG(X) MON_MSG("DEBUG", X)
#define ANA_MSG_INFO(X) MON_MSG("INFO", X)
#define ANA_MSG_WARNING(X) MON_MSG("WARNING", X)
#define ANA_MSG_ERROR(X) MON_MSG("ERROR", X)

struct ISvcLocator {};

// ATLAS containers hold pointers to const elements
template <class T> class DataVector {
public:
  std::vector<const T *> ptrs;
  typedef typename std::vector<const T *>::const_iterator const_iterator;
  typedef const T *value_type;
  const_iterator begin() const { T::mon_anchor(); return ptrs.begin(); }
  const_iterator end() const { return ptrs.end(); }
  size_t size() const { T::mon_anchor(); return ptrs.size(); }
  bool empty() const { return ptrs.empty(); }
  const T *at(size_t i) const { T::mon_anchor(); return ptrs.at(i); }
  const T *operator[](size_t i) const { return ptrs[i]; }
  static const DataVector<T> *mon_make(const mon::Bank *b) {
    T::mon_anchor();
    static std::map<const mon::Bank *, DataVector<T>> cache;
    auto it = cache.find(b);
    if (it == cache.end()) { DataVector<T> c; c.ptrs = mon::wrap_all<T>(b->objs); it = cache.emplace(b, c).first; }
    return &it->second;
  }
};

namespace asg {
struct EvtStore {
  const mon::Event *ev = nullptr;
  template <class T> StatusCode retrieve(const T *&r, const std::string &bank) {
    mon::out() << "RETRIEVE how=retrieve ctype=" << mon::hex(mon::cname<T>::get()) << " bank=" << mon::hex(bank) << "\n";
    const mon::Bank *b = ev ? ev->find(mon::cname<T>::get(), bank) : nullptr;
    if (!b) { r = nullptr; mon::out() << "RETRIEVE_FAIL\n"; return StatusCode::FAILURE; }
    r = T::mon_make(b);
    return StatusCode::SUCCESS;
  }
};
}  // namespace asg

namespace EL {
class AnaAlgorithm {
public:
  AnaAlgorithm(const std::string &n, ISvcLocator *) : m_name(n) {}
  virtual ~AnaAlgorithm() { for (auto &t : m_trees) delete t.second; }
  virtual StatusCode initialize() { return StatusCode::SUCCESS; }
  virtual StatusCode execute() { return StatusCode::SUCCESS; }
  virtual StatusCode finalize() { return StatusCode::SUCCESS; }
  asg::EvtStore m_store;
  asg::EvtStore *evtStore() { return &m_store; }
  std::map<std::string, TTree *> m_trees;
  std::string m_name;
  StatusCode book(const TTree &t) {
    mon::out() << "BOOK tree=" << mon::hex(t.name) << "\n";
    if (m_trees.count(t.name)) { mon::out() << "BOOK_DUPLICATE\n"; return StatusCode::FAILURE; }
    m_trees[t.name] = new TTree(t);
    return StatusCode::SUCCESS;
  }
  TTree *tree(const std::string &n) {
    auto it = m_trees.find(n);
    if (it == m_trees.end()) { mon::out() << "TREE_MISSING " << mon::hex(n) << "\n"; throw std::logic_error("no such tree " + n); }
    return it->second;
  }
};
}  // namespace EL

namespace xAOD { struct TFileAccessTracer { static void enableDataSubmission(bool) {} }; }
