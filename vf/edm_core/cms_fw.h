// Model of the CMSSW shell the CMS templates (r5: AOD, r7: miniAOD) are written against.
#pragma once
#include "mon_core.h"

namespace cms { class Exception : public std::runtime_error { public: Exception(const std::string &c, const std::string &m) : std::runtime_error(c + ": " + m) {} }; }

namespace edm {
class ParameterSet {};
class ParameterSetDescription { public: void setUnknown() {} };
class ConfigurationDescriptions { public: void addDefault(const ParameterSetDescription &) {} };
class EventSetup {};
class Run {};
class LuminosityBlock {};
class InputTag {
public:
  std::string label;
  InputTag() {}
  InputTag(const std::string &l) : label(l) {}
  InputTag(const char *l) : label(l) {}
};
template <class T> class Handle {
public:
  const T *p = nullptr;
  bool isValid() const { return p != nullptr; }
  const T &operator*() const { if (!p) { mon::out() << "INVALID_HANDLE_DEREF ctype=" << mon::hex(mon::cname<T>::get()) << "\n"; throw cms::Exception("ProductNotFound", "dereference of invalid handle"); } return *p; }
  const T *operator->() const { return &**this; }
  const T *product() const { return &**this; }
};
template <class T> class EDGetTokenT {
public:
  bool init = false; std::string label; int serial = 0;
};
// smart reference: null-able, with the "poisoned null" monitor
template <class T> class Ref {
public:
  const T *p = nullptr;
  Ref() {}
  explicit Ref(const T *q) : p(q) {}
  bool isNonnull() const { return p != nullptr; }
  bool isNull() const { return p == nullptr; }
  bool isAvailable() const { return p != nullptr; }
  const T *get() const { return p; }
  const T *operator->() const { if (!p) { mon::out() << "NULL_DEREF type=" << mon::hex(mon::pretty<T>()) << "\n"; throw cms::Exception("InvalidReference", "dereference of a null Ref"); } return p; }
  const T &operator*() const { return *operator->(); }
};
template <class C> const C *mon_make_collection(const mon::Bank *b);
class Event {
public:
  const mon::Event *ev = nullptr;
  template <class T> bool getByLabel(const InputTag &tag, Handle<T> &h) const { return fetch("getByLabel", tag.label, h); }
  template <class T> bool getByLabel(const std::string &label, Handle<T> &h) const { return fetch("getByLabel", label, h); }
  template <class T> bool getByLabel(const char *label, Handle<T> &h) const { return fetch("getByLabel", label, h); }
  template <class T> bool getByToken(const EDGetTokenT<T> &tok, Handle<T> &h) const {
    if (!tok.init) { mon::out() << "TOKEN_UNINITIALIZED ctype=" << mon::hex(mon::cname<T>::get()) << "\n"; throw cms::Exception("InvalidToken", "getByToken with an uninitialised token"); }
    mon::out() << "TOKEN_USE serial=" << tok.serial << "\n";
    return fetch("getByToken", tok.label, h);
  }
private:
  template <class T> bool fetch(const char *how, const std::string &label, Handle<T> &h) const {
    mon::out() << "RETRIEVE how=" << how << " ctype=" << mon::hex(mon::cname<T>::get()) << " bank=" << mon::hex(label) << "\n";
    const mon::Bank *b = ev ? ev->find(mon::cname<T>::get(), label) : nullptr;
    if (!b) { h.p = nullptr; mon::out() << "RETRIEVE_FAIL\n"; return false; }
    h.p = mon_make_collection<T>(b);
    return true;
  }
};
template <class C> const C *mon_make_collection(const mon::Bank *b) {
  static std::map<const mon::Bank *, C> cache;
  auto it = cache.find(b);
  if (it == cache.end()) { C c; for (auto o : b->objs) { typename C::value_type t; t.o = o; t.mon_fill(); c.push_back(t); } it = cache.emplace(b, c).first; }
  return &it->second;
}
class EDConsumerBase {
public:
  int mon_tokens = 0;
  template <class T> EDGetTokenT<T> consumes(const InputTag &tag) {
    EDGetTokenT<T> t; t.init = true; t.label = tag.label; t.serial = ++mon_tokens;
    mon::out() << "CONSUMES serial=" << t.serial << " ctype=" << mon::hex(mon::cname<T>::get()) << " bank=" << mon::hex(tag.label) << "\n";
    return t;
  }
};
class EDAnalyzer : public EDConsumerBase {
public:
  virtual ~EDAnalyzer() {}
  virtual void beginJob() {}
  virtual void analyze(const Event &, const EventSetup &) = 0;
  virtual void endJob() {}
};
namespace one {
struct SharedResources {};
template <class... A> class EDAnalyzer : public edm::EDAnalyzer {};
}  // namespace one
template <class S> class Service {
public:
  S *operator->() const { static S s; return &s; }
};
}  // namespace edm

class TFileService {
public:
  std::vector<TTree *> trees;
  template <class T, class... A> T *make(A... a) { T *t = new T(a...); mon::out() << "BOOK tree=" << mon::hex(t->name) << "\n"; trees.push_back(t); return t; }
};
#define DEFINE_FWK_MODULE(X) typedef X mon_analyzer_t
