// Driver for an emitted ATLAS package (unity-built after query.cxx so the class layout matches).
// usage: job <events-file> [first-event-index]
#include <analysis/query.h>
int main(int argc, char **argv) {
  std::ios::sync_with_stdio(true);
  std::cout.setf(std::ios::unitbuf);
  auto evs = mon::read_events(argv[1]);
  size_t from = argc > 2 ? std::stoul(argv[2]) : 0;
  ISvcLocator loc;
  std::unique_ptr<query> q;
  auto fresh = [&]() -> bool {
    mon::out() << "JOB_BEGIN\n";
    q.reset(new query("AnalysisAlg", &loc));
    if (q->initialize().isFailure()) { mon::out() << "INIT_FAIL\n"; return false; }
    mon::out() << "INIT_OK\n";
    return true;
  };
  try { if (!fresh()) return 3; } catch (const std::exception &ex) { mon::out() << "INIT_THROW what=" << mon::hex(ex.what()) << "\n"; return 3; }
  for (size_t n = from; n < evs.size(); n++) {
    mon::out() << "EVENT_BEGIN " << n << "\n";
    q->m_store.ev = evs[n].get();
    bool dead = false;
    try {
      auto sc = q->execute();
      mon::out() << "EVENT_END " << n << (sc.isFailure() ? " status=FAILURE" : " status=OK") << "\n";
      dead = sc.isFailure();
    } catch (const std::exception &ex) {
      mon::out() << "EVENT_END " << n << " status=THROW what=" << mon::hex(ex.what()) << "\n";
      dead = true;
    }
    // the real job dies on a failure/exception; post-fault state is not part of any property: start a fresh job object
    if (dead && n + 1 < evs.size()) { try { if (!fresh()) return 3; } catch (const std::exception &) { return 3; } }
  }
  q->finalize();
  mon::out() << "JOB_END\n";
  return 0;
}
