// Driver for an emitted CMS package (unity-built after Analyzer.cc).
// usage: job <events-file> [first-event-index]
int main(int argc, char **argv) {
  std::cout.setf(std::ios::unitbuf);
  auto evs = mon::read_events(argv[1]);
  size_t from = argc > 2 ? std::stoul(argv[2]) : 0;
  edm::ParameterSet ps;
  edm::EventSetup es;
  std::unique_ptr<edm::EDAnalyzer> a;
  auto fresh = [&]() { mon::out() << "JOB_BEGIN\n"; a.reset(new mon_analyzer_t(ps)); a->beginJob(); mon::out() << "INIT_OK\n"; };
  try { fresh(); } catch (const std::exception &ex) { mon::out() << "INIT_THROW what=" << mon::hex(ex.what()) << "\n"; return 3; }
  for (size_t n = from; n < evs.size(); n++) {
    mon::out() << "EVENT_BEGIN " << n << "\n";
    edm::Event ev; ev.ev = evs[n].get();
    bool dead = false;
    try { a->analyze(ev, es); mon::out() << "EVENT_END " << n << " status=OK\n"; }
    catch (const std::exception &ex) { mon::out() << "EVENT_END " << n << " status=THROW what=" << mon::hex(ex.what()) << "\n"; dead = true; }
    if (dead && n + 1 < evs.size()) { try { fresh(); } catch (const std::exception &) { return 3; } }
  }
  a->endJob();
  mon::out() << "JOB_END\n";
  return 0;
}
