"""Reference meaning of a query: the SAME AST the translator receives is compile()d and
eval()ed by Python against this small LINQ runtime and schema-driven model objects.
Short-circuit and/or, conditional arms, `/`, `**`, `%`, comparison, tuple/dict plumbing are
therefore Python's own, not a re-implementation.

Outcome per event:  ('ROWS', rows) | ('FAULT', kind) | ('UNSPEC', reason)
UNSPEC = the property does not say what must happen (the evaluation orders Python/LINQ
allow disagree, arithmetic is undefined, or a discrete outcome sits on a rounding boundary).
"""
from __future__ import annotations

import ast
import copy
import ctypes
import ctypes.util
import math
from typing import Any, Callable, Dict, List, Optional, Tuple

from .schema import py_kind


class Fault(Exception):
    def __init__(self, kind):
        super().__init__(kind)
        self.kind = kind


class Unspec(Exception):
    pass


class Poison:
    """Stands for a value whose computation faulted, in the maximally lazy reading: the fault
    is raised only if the value is actually used."""

    def __init__(self, exc):
        object.__setattr__(self, "_exc", exc)

    def _boom(self, *a, **k):
        raise object.__getattribute__(self, "_exc")

    __getattr__ = __call__ = __iter__ = __getitem__ = __bool__ = __float__ = __int__ = __index__ = _boom
    __add__ = __radd__ = __sub__ = __rsub__ = __mul__ = __rmul__ = __truediv__ = __rtruediv__ = _boom
    __mod__ = __rmod__ = __pow__ = __rpow__ = __neg__ = __pos__ = __abs__ = _boom
    __lt__ = __le__ = __gt__ = __ge__ = __eq__ = __ne__ = __hash__ = __len__ = _boom


def lazy_arg(t: "Thunk"):
    "value of a thunk as a lambda argument: in 'skip' mode a faulting value is only poisonous when used"
    if RT.mode != "skip":
        return t.get()
    try:
        return t.get()
    except (Fault, Unspec) as e:
        return Poison(e)


class Thunk:
    __slots__ = ("f", "done", "val")

    def __init__(self, f=None, val=None, done=False):
        self.f, self.val, self.done = f, val, done

    def get(self):
        if not self.done:
            self.val = self.f()
            self.done = True
        return self.val


class RT:
    "evaluation mode: 'lazy' (generator pipeline), 'eager' (lists), 'skip' (unused element values never computed)"
    mode = "lazy"


class Seq:
    def __init__(self, mk: Callable[[], Any]):
        self._mk = mk

    @staticmethod
    def of(values):
        vals = list(values)
        return Seq(lambda: (Thunk(val=v, done=True) for v in vals))

    def thunks(self):
        return self._mk()

    def __iter__(self):
        for t in self.thunks():
            yield t.get()

    def _wrap(self, gen_fn):
        if RT.mode == "eager":
            lst = list(gen_fn())
            for t in lst:
                t.get()
            return Seq(lambda: iter(lst))
        if RT.mode == "lazy":
            def g():
                for t in gen_fn():
                    t.get()
                    yield t
            return Seq(g)
        return Seq(gen_fn)

    def Select(self, f):
        return self._wrap(lambda: (Thunk((lambda t=t: f(lazy_arg(t)))) for t in self.thunks()))

    def SelectMany(self, f):
        def g():
            for t in self.thunks():
                for u in as_seq(f(lazy_arg(t))).thunks():
                    yield u
        return self._wrap(g)

    def Where(self, f):
        def g():
            for t in self.thunks():
                if f(lazy_arg(t)):
                    yield t
        return self._wrap(g)

    def Count(self):
        return sum(1 for _ in self.thunks())

    def First(self):
        for t in self.thunks():
            return t.get()
        raise Fault("first_empty")

    def Aggregate(self, seed, f):
        acc = seed
        for t in self.thunks():
            acc = f(acc, lazy_arg(t))
        return acc

    def Sum(self):
        return self.Aggregate(0, lambda a, v: a + v)

    def Max(self):
        l = list(self)
        if not l:
            raise Unspec("max of empty")
        return max(l)

    def Min(self):
        l = list(self)
        if not l:
            raise Unspec("min of empty")
        return min(l)

    def __getitem__(self, i):
        if isinstance(i, bool) or not isinstance(i, int):
            raise Unspec("non-int index")
        l = list(self.thunks())
        if i < 0 or i >= len(l):
            raise Fault("index_range")
        return l[i].get()


def as_seq(v) -> Seq:
    if isinstance(v, Seq):
        return v
    if isinstance(v, Poison):
        v._boom()
    raise TypeError("value used as a sequence")


class NullObj:
    "a null link: any member access is a null dereference"

    def __getattr__(self, n):
        raise Fault("null_deref")


class RObj:
    def __init__(self, schema, data):
        object.__setattr__(self, "_s", schema)
        object.__setattr__(self, "_d", data)

    def __getattr__(self, n):
        s = object.__getattribute__(self, "_s")
        d = object.__getattribute__(self, "_d")
        cls = d["__cls"]
        members = s["classes"][cls]["members"]
        if n in ("getAttributeFloat", "getAttributeVectorFloat") and s["classes"][cls].get("attributes"):
            def ga(name, n=n):
                key = "attr:" + name
                if key not in d:
                    raise Fault("missing_attribute")
                return float(d[key]) if n == "getAttributeFloat" else Seq.of(float(x) for x in d[key])
            return ga
        if n not in members:
            if "__inner" in d:  # operator-> / operator* layers: the query reaches the hidden object's members directly
                return getattr(RObj(s, d["__inner"]), n)
            raise AttributeError(f"{cls} has no member {n}")
        m = members[n]
        k = m["k"]
        if k == "field":
            return conv(m["ctype"], d[n])
        if k == "num":
            return lambda: conv(m["ctype"], d[n])
        if k == "enum":
            return lambda: int(d[n])
        if k == "fn":
            return lambda *a: conv(m["ctype"], m["py"](d, *a))
        if k == "vec":
            return lambda: Seq.of(conv(m["ctype"], x) for x in d[n])
        if k == "obj":
            return lambda: NullObj() if d[n] is None else RObj(s, d[n])
        if k == "objvec":
            return lambda: Seq.of(RObj(s, x) for x in d[n])
        raise AttributeError(n)


def conv(ctype, v):
    k = py_kind(ctype)
    if k == "bool":
        return bool(v)
    if k == "int":
        return int(v)
    return float(v)


class REvent:
    def __init__(self, schema, ev, log):
        object.__setattr__(self, "_s", schema)
        object.__setattr__(self, "_e", ev)
        object.__setattr__(self, "_log", log)

    def __getattr__(self, coll):
        s = object.__getattribute__(self, "_s")
        e = object.__getattribute__(self, "_e")
        log = object.__getattribute__(self, "_log")
        if coll not in s["collections"]:
            raise AttributeError(coll)
        spec = s["collections"][coll]

        def get(bank):
            log.append((spec["container"], bank))
            for b in e["banks"]:
                bt = b.get("ctype") or s["collections"][b["coll"]]["container"]
                if bt == spec["container"] and b["bank"] == bank:
                    if spec["element"] is None:
                        return RObj(s, b["objs"][0])
                    return Seq.of(RObj(s, o) for o in b["objs"])
            raise Fault("missing_bank")
        return get


# ---- the C library's math functions (the "function of that name")
_libm = ctypes.CDLL(ctypes.util.find_library("m") or "libm.so.6")
_D, _I, _L, _LD = ctypes.c_double, ctypes.c_int, ctypes.c_long, ctypes.c_longdouble


def _cfn(name, argtypes, restype=_D):
    f = getattr(_libm, name)
    f.argtypes = list(argtypes)
    f.restype = restype

    def call(*a):
        if len(a) != len(argtypes):
            raise TypeError(f"{name} takes {len(argtypes)} arguments")
        for x, t in zip(a, argtypes):
            if t in (_I, _L) and (isinstance(x, float) and x != int(x)):
                raise Unspec("non-integral value for an integer parameter")
        r = f(*[int(x) if t in (_I, _L) else x for x, t in zip(a, argtypes)])
        return float(r) if restype in (_D,) else r
    return call


MATH1 = ["sin", "cos", "tan", "acos", "asin", "atan", "sinh", "cosh", "tanh", "asinh", "acosh", "atanh", "exp", "log", "log10", "exp2", "expm1",
         "log1p", "log2", "sqrt", "cbrt", "erf", "erfc", "tgamma", "lgamma", "ceil", "floor", "trunc", "round", "rint", "nearbyint", "fabs"]
MATH2 = ["atan2", "pow", "hypot", "fmod", "remainder", "copysign", "nextafter", "fdim", "fmax", "fmin"]
MATHFN: Dict[str, Callable] = {}
for _n in MATH1:
    MATHFN[_n] = _cfn(_n, [_D])
for _n in MATH2:
    MATHFN[_n] = _cfn(_n, [_D, _D])
MATHFN["ldexp"] = _cfn("ldexp", [_D, _I])
MATHFN["scalbn"] = _cfn("scalbn", [_D, _I])
MATHFN["scalbln"] = _cfn("scalbln", [_D, _L])
MATHFN["ilogb"] = _cfn("ilogb", [_D], _I)
MATHFN["nexttoward"] = _cfn("nexttoward", [_D, _LD])
MATHFN["fma"] = _cfn("fma", [_D, _D, _D])
MATHFN["ln"] = MATHFN["log"]
_round1 = MATHFN["round"]


def _round(x, *ndigits):
    "cmath's round for one argument; Python's own two-argument form otherwise (so that such a query has a meaning to compare with)"
    return _round1(x) if not ndigits else float(round(x, int(ndigits[0])))


MATHFN["round"] = _round


def _nan(tag=""):
    return float("nan")


MATHFN["nan"] = _nan


def _remquo(x, y):
    q = ctypes.c_int(0)
    f = _libm.remquo
    f.argtypes = [_D, _D, ctypes.POINTER(_I)]
    f.restype = _D
    return float(f(x, y, ctypes.byref(q)))


MATHFN["remquo"] = _remquo


def _abs(x):
    return abs(x)


def _pow(x, y):
    return MATHFN["pow"](float(x), float(y))


def base_globals(schema) -> Dict[str, Any]:
    G: Dict[str, Any] = {"__builtins__": {}}
    G.update(MATHFN)
    G["abs"] = _abs  # builtin abs
    G["pow"] = _pow
    for n in ("Select", "SelectMany", "Where", "Count", "First", "Aggregate", "Sum", "Max", "Min"):
        G[n] = (lambda n: lambda seq, *a: getattr(as_seq(seq), n)(*a))(n)
    G["len"] = lambda s: as_seq(s).Count()

    def _range(a, b):
        if isinstance(a, bool) or isinstance(b, bool) or not isinstance(a, int) or not isinstance(b, int):
            raise Unspec("Range with non-int bounds")
        return Seq.of(range(a, b))
    G["Range"] = _range
    G["__mkdict"] = AttrDict
    G["__pick"] = _pick
    G["MetaData"] = lambda seq, md: seq
    G["ResultTTree"] = lambda seq, cols, t, f: seq
    G["isNonnull"] = lambda o: not isinstance(o, NullObj)
    G["DeltaR"] = lambda e1, p1, e2, p2: math.sqrt((e1 - e2) ** 2 + _phi_mpi_pi(p1 - p2) ** 2)
    return G


def _phi_mpi_pi(x):
    if math.isnan(x):
        return x
    while x >= math.pi:
        x -= 2 * math.pi
    while x < -math.pi:
        x += 2 * math.pi
    return x


def _norm(v):
    if isinstance(v, Seq):
        return [_norm(x) for x in v]
    if isinstance(v, tuple):
        return tuple(_norm(x) for x in v)
    if isinstance(v, list):
        return tuple(_norm(x) for x in v)
    if isinstance(v, dict):
        return {k: _norm(x) for k, x in v.items()}
    if isinstance(v, Poison):
        v._boom()
    if isinstance(v, (RObj, NullObj, REvent)):
        raise Unspec("raw object as a value")
    return v


def _check_finite(v):
    if isinstance(v, (list, tuple)):
        for x in v:
            _check_finite(x)
    elif isinstance(v, dict):
        for x in v.values():
            _check_finite(x)
    elif isinstance(v, bool):
        pass
    elif isinstance(v, int):
        if abs(v) >= 2 ** 31:
            raise Unspec("int outside 32 bits")
    elif isinstance(v, complex):
        raise Unspec("complex value")
    elif isinstance(v, float):
        if math.isnan(v) or math.isinf(v):
            raise Unspec("non-finite value")
        if abs(v) > 1e30:
            raise Unspec("magnitude beyond what single-precision arithmetic of the job carries")


class AttrDict(dict):
    "func_adl lets a dict built in a query be read as d['k'] or d.k"

    def __getattr__(self, n):
        try:
            return self[n]
        except KeyError:
            raise AttributeError(n)


def _pick(k, *thunks):
    """`(a, b, ...)[k]` / `{..}[key]` written out literally: func_adl resolves the subscript statically, so the generated
    job never computes the other elements, while Python builds the whole tuple first.  'skip' mode takes the translator's
    reading, the other modes Python's (an event on which they disagree is UNSPEC)."""
    if RT.mode == "skip":
        return thunks[k]()
    vals = [t() for t in thunks]
    return vals[k]


class _DictWrap(ast.NodeTransformer):
    def visit_Subscript(self, node):
        self.generic_visit(node)
        v, sl = node.value, node.slice
        if isinstance(sl, ast.Constant):
            elts = None
            if isinstance(v, (ast.Tuple, ast.List)) and isinstance(sl.value, int) and not isinstance(sl.value, bool) and -len(v.elts) <= sl.value < len(v.elts):
                elts, k = v.elts, sl.value % len(v.elts)
            elif isinstance(v, ast.Call) and isinstance(v.func, ast.Name) and v.func.id == "__mkdict" and isinstance(v.args[0], ast.Dict):
                d = v.args[0]
                keys = [kk.value if isinstance(kk, ast.Constant) else None for kk in d.keys]
                if sl.value in keys and None not in keys:
                    elts, k = d.values, keys.index(sl.value)
            if elts is not None:
                lam = [ast.Lambda(args=ast.arguments(posonlyargs=[], args=[], kwonlyargs=[], kw_defaults=[], defaults=[]), body=e) for e in elts]
                return ast.Call(func=ast.Name("__pick", ast.Load()), args=[ast.Constant(k)] + lam, keywords=[])
        return node

    def visit_Dict(self, node):
        self.generic_visit(node)
        return ast.Call(func=ast.Name("__mkdict", ast.Load()), args=[node], keywords=[])


class Compiled:
    def __init__(self, a: ast.AST, schema, extra_globals: Optional[Dict[str, Any]] = None, allow_nonfinite=False):
        a = _DictWrap().visit(copy.deepcopy(a))
        self.code = compile(ast.fix_missing_locations(ast.Expression(a)), "<query>", "eval")
        self.schema = schema
        self.extra = extra_globals or {}
        self.allow_nonfinite = allow_nonfinite

    def eval_event(self, ev, mode="lazy") -> Tuple[str, Any, List[Tuple[str, str]]]:
        log: List[Tuple[str, str]] = []
        g = base_globals(self.schema)
        g.update(self.extra)
        g["EventDataset"] = lambda *a: Seq.of([REvent(self.schema, ev, log)])
        RT.mode = mode
        try:
            rows = [_norm(r) for r in eval(self.code, g)]
            if not self.allow_nonfinite:
                _check_finite(rows)
            return ("ROWS", rows, log)
        except Fault as f:
            return ("FAULT", f.kind, log)
        except Unspec as u:
            return ("UNSPEC", str(u), log)
        except (ZeroDivisionError, OverflowError, ValueError) as e:
            return ("UNSPEC", type(e).__name__, log)
        except RecursionError:
            return ("UNSPEC", "recursion", log)
        finally:
            RT.mode = "lazy"


def structure(outcome) -> Any:
    "the discrete part of an outcome: kind, row count, nesting, ints and bools"
    kind, val = outcome[0], outcome[1]
    if kind != "ROWS":
        return (kind, val if kind == "FAULT" else None)

    def st(v):
        if isinstance(v, (list, tuple)):
            return tuple(st(x) for x in v)
        if isinstance(v, dict):
            return tuple((k, st(x)) for k, x in v.items())
        if isinstance(v, bool) or isinstance(v, int):
            return v
        return "f"
    return ("ROWS", st(val))


def perturb(ev, schema, rel_up: bool, alt: bool = False):
    "copy of the event with every floating source value nudged (float: 1e-6, double: 1e-12 relative)"
    flip = [False]

    def go(o):
        if o is None:
            return None
        cls = o["__cls"]
        members = schema["classes"][cls]["members"]
        out = {}
        for k, v in o.items():
            if k.startswith("__"):
                out[k] = go(v) if isinstance(v, dict) else v
                continue
            if k.startswith("attr:"):
                eps = 1e-6
                sg = 1 if rel_up else -1
                out[k] = [x * (1 + sg * eps) for x in v] if isinstance(v, list) else v * (1 + sg * eps)
                continue
            m = members[k]
            kk = m["k"]
            if kk in ("num", "field", "vec") and py_kind(m["ctype"]) == "float":
                eps = 1e-6 if m["ctype"] == "float" else 1e-12

                def nud(x):
                    sg = 1 if rel_up else -1
                    if alt:
                        flip[0] = not flip[0]
                        sg = sg if flip[0] else -sg
                    return x * (1 + sg * eps)
                out[k] = [nud(x) for x in v] if kk == "vec" else nud(v)
            elif kk == "obj":
                out[k] = go(v)
            elif kk == "objvec":
                out[k] = [go(x) for x in v]
            else:
                out[k] = v
        return out
    return {"banks": [{**b, "objs": [go(o) for o in b["objs"]]} for b in ev["banks"]]}


def _nan_key(v):
    "structural key under which NaN equals NaN"
    if isinstance(v, float) and math.isnan(v):
        return "NaN"
    if isinstance(v, (list, tuple)):
        return tuple(_nan_key(x) for x in v)
    if isinstance(v, dict):
        return tuple((k, _nan_key(x)) for k, x in v.items())
    return v


def decide_event(comp: Compiled, ev, modes=("lazy", "eager", "skip"), conditioning=True) -> Tuple[str, Any, List]:
    """Reference outcome for one event, UNSPEC when evaluation orders disagree or the
    discrete outcome is numerically ill-conditioned."""
    outs = [comp.eval_event(ev, m) for m in modes]
    base = outs[0]
    if any(o[0] == "UNSPEC" for o in outs):
        u = [o for o in outs if o[0] == "UNSPEC"][0]
        return ("UNSPEC", u[1], base[2])
    if any(_nan_key((o[0], o[1])) != _nan_key((base[0], base[1])) for o in outs[1:]):
        # rows may contain NaN-free floats only, so == is fine
        return ("UNSPEC", "evaluation orders disagree", base[2])
    if base[0] == "FAULT" and base[1] == "null_deref":
        return ("UNSPEC", "null dereference in the query itself", base[2])
    if conditioning:
        s0 = structure(base)
        for up, alt in ((True, False), (False, False), (True, True)):
            o = comp.eval_event(perturb(ev, comp.schema, up, alt), "lazy")
            if structure(o) != s0:
                return ("UNSPEC", "ill-conditioned", base[2])
    return base
