"""Runs the rendered ATLAS job options (ATestRun_eljob.py) against a recording stand-in for PyROOT / EventLoop and returns
the trace of what the script asks EventLoop to do.  The generated C++ is exercised by the model driver; this monitor covers
the other half of the job: which algorithms are scheduled, on which sample, with which options and output stream."""
from __future__ import annotations

import json
import subprocess
import sys
from pathlib import Path
from typing import Any, Dict, List, Optional

RUNNER = r'''
import json, sys, types
TRACE = []
class Rec:
    def __init__(self, name): object.__setattr__(self, "_n", name)
    def __getattr__(self, a): return Rec(self._n + "." + a)
    def __call__(self, *a, **k):
        TRACE.append([self._n, [repr(x) for x in a], {kk: repr(v) for kk, v in k.items()}])
        return Rec(self._n + "()")
    def __repr__(self): return "<" + self._n + ">"
    def __iter__(self): return iter(())
    def __bool__(self): return True
    def __setattr__(self, a, v): TRACE.append([self._n + "." + a + "=", [repr(v)], {}])
root = types.ModuleType("ROOT"); root.__getattr__ = lambda a: Rec("ROOT." + a); sys.modules["ROOT"] = root
ana = types.ModuleType("AnaAlgorithm"); duc = types.ModuleType("AnaAlgorithm.DualUseConfig")
def createAlgorithm(t, n):
    TRACE.append(["createAlgorithm", [repr(t), repr(n)], {}]); return Rec("alg:" + t + "/" + n)
duc.createAlgorithm = createAlgorithm; duc.createService = createAlgorithm; duc.addPrivateTool = lambda *a, **k: TRACE.append(["addPrivateTool", [repr(x) for x in a], {}])
sys.modules["AnaAlgorithm"] = ana; sys.modules["AnaAlgorithm.DualUseConfig"] = duc
script = sys.argv[1]; sys.argv = [script, "--submission-dir=bogus"]
err = None
try:
    exec(compile(open(script).read(), script, "exec"), {"__name__": "__main__"})
except BaseException as e:
    err = type(e).__name__ + ": " + str(e)[:200]
print("JOBTRACE " + json.dumps({"trace": TRACE, "error": err}))
'''


def job_trace(script: Path, python: str = sys.executable) -> Dict[str, Any]:
    r = subprocess.run([python, "-c", RUNNER, str(script)], capture_output=True, text=True, timeout=60)
    for l in r.stdout.splitlines():
        if l.startswith("JOBTRACE "):
            return json.loads(l[9:])
    return {"trace": [], "error": "no trace: " + (r.stderr[-300:] or r.stdout[-300:])}


def judge_plain_job(tr: Dict[str, Any]) -> Optional[str]:
    """Trace specification for a query WITHOUT job-script metadata: the sample is the file list, exactly one algorithm - the
    generated `query` - is scheduled, the output stream is ANALYSIS, the job is submitted once, and nothing else is asked of the job."""
    if tr.get("error"):
        return f"the job options script does not run: {tr['error']}"
    t = tr["trace"]
    names = [x[0] for x in t]
    if names.count("ROOT.SH.readFileList") != 1 or not any(x[0] == "ROOT.SH.readFileList" and x[1][1:] == ["'ANALYSIS'", "'filelist.txt'"] for x in t):
        return f"the sample is not read from filelist.txt exactly once: {[x for x in t if 'readFileList' in x[0]]}"
    algs = [x for x in t if x[0].endswith(".algsAdd")]
    if len(algs) != 1 or algs[0][1] != ["<alg:query/AnalysisAlg>"]:
        return f"algorithms scheduled: {[x[1] for x in algs]} (expected the generated query algorithm alone)"
    job_calls = [x for x in t if x[0].startswith("ROOT.EL.Job().")]
    allowed = {"ROOT.EL.Job().sampleHandler", "ROOT.EL.Job().algsAdd", "ROOT.EL.Job().outputAdd"}
    extra = [x for x in job_calls if x[0] not in allowed]
    if extra:
        return f"further requests to the EventLoop job: {extra[:3]}"
    outs = [x for x in t if x[0] == "ROOT.EL.OutputStream"]
    if [x[1] for x in outs] != [["'ANALYSIS'"]]:
        return f"output streams {[x[1] for x in outs]}"
    subs = [x for x in t if x[0].endswith(".submit")]
    if len(subs) != 1 or subs[0][1][1] != "'bogus'":
        return f"job submissions: {subs}"
    return None
