"""CLI:  python -m vf.main C01 [--tier quick|thorough] [--seed N] [--replay FILE]"""
from __future__ import annotations

import argparse
import importlib
import os
import sys
import traceback

from .core import Ctx, EXIT_INCONCLUSIVE, Inconclusive


def main():
    ap = argparse.ArgumentParser()
    ap.add_argument("prop")
    ap.add_argument("--tier", default=os.environ.get("VERIF_TIER", "quick"), choices=["quick", "thorough"])
    ap.add_argument("--seed", type=int, default=int(os.environ.get("VERIF_SEED", "0")))
    ap.add_argument("--replay", default=None)
    a = ap.parse_args()
    prop = a.prop.upper()
    mod = importlib.import_module(f"vf.props.{prop.lower()}")
    ctx = Ctx(prop, a.tier, a.seed, a.replay)
    try:
        rc = mod.run(ctx)
    except Inconclusive as e:
        ctx.inconclusive.append(str(e))
        rc = mod.finish(ctx) if hasattr(mod, "finish") else EXIT_INCONCLUSIVE
        print(f"INCONCLUSIVE property={prop} reason={e}")
        rc = EXIT_INCONCLUSIVE
    except Exception:
        traceback.print_exc()
        print(f"INCONCLUSIVE property={prop} reason=harness exception")
        rc = EXIT_INCONCLUSIVE
    finally:
        import shutil

        shutil.rmtree(ctx.scratch, ignore_errors=True)
    sys.exit(rc)


if __name__ == "__main__":
    main()
