"""Known-findings classification by MECHANISM.

Each `known` entry of known_findings.json names a `classifier`: a syntactic shape predicate
over the (shrunk) failing query plus, where possible, a condition on the observed failure.
A violation is suppressed (counted as a known hit) only if the predicate of a `known` entry
of the same failure family matches the shrunk witness; everything else is reported.
`excludes` on an entry names generator options that keep random workloads away from the
shape while the entry is `known` (the committed witness keeps the finding visible)."""
from __future__ import annotations

import ast
from typing import Any, Callable, Dict, List, Optional

AGG_TERMINALS = {"Count", "Sum", "Min", "Max", "Aggregate", "First", "len"}
SEQ_OPS = {"Select", "Where", "SelectMany"}


def parse(q: str) -> ast.AST:
    return ast.parse(q, mode="eval").body


def call_name(n: ast.AST) -> Optional[str]:
    if isinstance(n, ast.Call):
        if isinstance(n.func, ast.Attribute):
            return n.func.attr
        if isinstance(n.func, ast.Name):
            return n.func.id
    return None


def call_source(n: ast.Call) -> Optional[ast.AST]:
    "the sequence a LINQ call applies to (method or function style)"
    if isinstance(n.func, ast.Attribute):
        return n.func.value
    if isinstance(n.func, ast.Name) and n.args:
        return n.args[0]
    return None


def call_lambda(n: ast.Call) -> Optional[ast.Lambda]:
    for a in n.args:
        if isinstance(a, ast.Lambda):
            return a
    return None


def chain(n: ast.AST) -> List[ast.Call]:
    "LINQ call chain ending at n, innermost last"
    out = []
    while isinstance(n, ast.Call) and call_name(n) in SEQ_OPS | AGG_TERMINALS:
        out.append(n)
        n = call_source(n)
    return out


def main_chain_nodes(q: ast.AST) -> set:
    "ids of the calls on the top-level (event stream) chain"
    ids = set()
    n = q
    while isinstance(n, ast.Call):
        ids.add(id(n))
        nm = call_name(n)
        if nm in SEQ_OPS | {"MetaData", "ResultTTree"}:
            n = call_source(n)
        else:
            break
    return ids


# ------------------------------------------------------------------ predicates
def uses_min_max(q: ast.AST, **kw) -> bool:
    return any(call_name(n) in ("Min", "Max") for n in ast.walk(q))


def mod_operator(q: ast.AST, **kw) -> bool:
    return any(isinstance(n, ast.BinOp) and isinstance(n.op, ast.Mod) for n in ast.walk(q))


def agg_or_first_over_inner_selectmany(q: ast.AST, **kw) -> bool:
    main = main_chain_nodes(q)
    for n in ast.walk(q):
        if call_name(n) in AGG_TERMINALS:
            for c in chain(call_source(n)):
                if call_name(c) == "SelectMany" and id(c) not in main:
                    return True
    return False


def inner_selectmany(q: ast.AST, **kw) -> bool:
    main = main_chain_nodes(q)
    return any(call_name(n) == "SelectMany" and id(n) not in main for n in ast.walk(q))


def _final_lambda(q: ast.AST) -> Optional[ast.Lambda]:
    n = q
    while isinstance(n, ast.Call) and call_name(n) in ("MetaData", "ResultTTree"):
        n = call_source(n)
    if isinstance(n, ast.Call) and call_name(n) == "Select":
        return call_lambda(n)
    return None


def object_rows_with_sequence_column(q: ast.AST, **kw) -> bool:
    "main chain contains a SelectMany (per-object rows) and some column is sequence-valued"
    main = main_chain_nodes(q)
    has_sm = any(call_name(n) == "SelectMany" and id(n) in main for n in ast.walk(q))
    if not has_sm:
        return False
    lam = _final_lambda(q)
    if lam is None:
        return False
    body = lam.body
    cols = body.elts if isinstance(body, (ast.Tuple, ast.List)) else (body.values if isinstance(body, ast.Dict) else [body])
    for c in cols:
        nm = call_name(c)
        if nm in ("Select", "Where", "SelectMany", "Range"):
            return True
    return False


def range_call(q: ast.AST, **kw) -> bool:
    return any(call_name(n) == "Range" for n in ast.walk(q))


def range_with_computed_bound(q: ast.AST, **kw) -> bool:
    for n in ast.walk(q):
        if call_name(n) == "Range" and isinstance(n, ast.Call):
            if any(not isinstance(a, ast.Constant) for a in n.args):
                return True
    return False


def true_division(q: ast.AST, **kw) -> bool:
    return any(isinstance(n, ast.BinOp) and isinstance(n.op, ast.Div) for n in ast.walk(q))


def index_of_computed_sequence(q: ast.AST, **kw) -> bool:
    "x[i] where x is itself the result of Select / Where / SelectMany (not a collection the event model hands out)"
    for n in ast.walk(q):
        if isinstance(n, ast.Subscript) and call_name(n.value) in SEQ_OPS:
            return True
    return False


def self_join_through_shared_variable(q: ast.AST, **kw) -> bool:
    """a sequence operator applied to a NAME (or indexed/attributed name: t[0], d.a) inside the lambda of a sequence
    operator applied to the very same expression: both loops run over one collection variable"""
    def src_text(n):
        s = call_source(n)
        if s is None:
            return None
        base = s
        while isinstance(base, (ast.Subscript, ast.Attribute)):
            base = base.value
        return ast.unparse(s) if isinstance(base, ast.Name) else None
    for n in ast.walk(q):
        if call_name(n) in SEQ_OPS | AGG_TERMINALS and isinstance(n, ast.Call):
            st = src_text(n)
            lam = call_lambda(n)
            if st is None or lam is None:
                continue
            for m in ast.walk(lam.body):
                if isinstance(m, ast.Call) and call_name(m) in SEQ_OPS | AGG_TERMINALS and src_text(m) == st:
                    return True
    return False


def aggregate_with_computed_seed(q: ast.AST, **kw) -> bool:
    "Aggregate(seed, f) whose seed itself contains a sequence terminal (needs statements of its own)"
    for n in ast.walk(q):
        if call_name(n) == "Aggregate" and isinstance(n, ast.Call):
            args = n.args if isinstance(n.func, ast.Attribute) else n.args[1:]
            if args and any(call_name(m) in AGG_TERMINALS | {"Range"} for m in ast.walk(args[0])):
                return True
    return False


def first_of_sequence_of_sequences(q: ast.AST, **kw) -> bool:
    "First() of a Select whose lambda yields a sequence, or a First() result used as a sequence"
    for n in ast.walk(q):
        if call_name(n) == "First" and isinstance(n, ast.Call):
            src = call_source(n)
            if call_name(src) == "Select":
                lam = call_lambda(src)
                if lam is not None and (call_name(lam.body) in SEQ_OPS | {"Range"}):
                    return True
        if call_name(n) in SEQ_OPS | AGG_TERMINALS and isinstance(n, ast.Call) and call_name(call_source(n)) == "First":
            return True
    return False


def always(q: ast.AST, **kw) -> bool:
    return True


PREDICATES: Dict[str, Callable[..., bool]] = {
    "uses_min_max": uses_min_max,
    "mod_operator": mod_operator,
    "agg_or_first_over_inner_selectmany": agg_or_first_over_inner_selectmany,
    "inner_selectmany": inner_selectmany,
    "object_rows_with_sequence_column": object_rows_with_sequence_column,
    "range_call": range_call,
    "range_with_computed_bound": range_with_computed_bound,
    "true_division": true_division,
    "index_of_computed_sequence": index_of_computed_sequence,
    "self_join_through_shared_variable": self_join_through_shared_variable,
    "aggregate_with_computed_seed": aggregate_with_computed_seed,
    "first_of_sequence_of_sequences": first_of_sequence_of_sequences,
}


def classify(entries: List[dict], query: str, kind: str, detail: str = "") -> Optional[dict]:
    """First `known` entry whose predicate matches the shrunk query and whose `kinds`
    (failure families, prefix match) cover the observed failure kind."""
    try:
        q = parse(query)
    except SyntaxError:
        return None
    try:
        # the shape predicates compare expressions by their text: give every lambda parameter its own name first, so that two
        # different variables that merely share a name are not taken for one
        from . import variants as V
        q, _ = V.alpha_rename_distinct(q)
    except Exception:
        pass
    for e in entries:
        pred = PREDICATES.get(e.get("classifier", ""))
        if pred is None:
            continue
        kinds = e.get("kinds")
        if kinds and not any(kind.startswith(k) for k in kinds):
            continue
        must = e.get("detail_contains")
        if must and must not in detail:
            continue
        try:
            if pred(q):
                return e
        except Exception:
            continue
    return None


def generator_exclusions(entries: List[dict]) -> Dict[str, Any]:
    "generator options switched by the `known` entries (all properties: a shape wrong for C01 is wrong for C05's generator too)"
    o: Dict[str, Any] = {}
    for e in entries:
        o.update(e.get("excludes", {}))
    return o
