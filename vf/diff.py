"""Differential execution engine: translate with the real translator, compile the emitted
package unmodified against the model EDM (ASan+UBSan), run it on generated events and
compare every decided event with the Python evaluation of the same AST."""
from __future__ import annotations

import math
import re
import shutil
from dataclasses import dataclass, field
from pathlib import Path
from typing import Any, Callable, Dict, List, Optional, Tuple

from . import cxx, edm, refrt, schema as sch
from .core import Ctx, parallel_map
from .xlate import parse_query, run_batch


@dataclass
class Case:
    backend: str
    query: str                      # text, dataset named `ds`, metadata NOT yet attached
    events: List[Dict[str, Any]]
    metadata: List[Dict[str, Any]] = field(default_factory=list)
    schema: Optional[Dict[str, Any]] = None   # None = fixed schema of the backend
    tag: Any = None                 # generator's feature signature
    wire: str = "ast"
    extra_globals: Optional[Dict[str, Any]] = None
    note: str = ""

    def full_query(self) -> str:
        return attach_metadata(self.query, self.metadata)

    def replay(self) -> Dict[str, Any]:
        return {"backend": self.backend, "query": self.full_query(), "events": strip_fn(self.events), "wire": self.wire,
                "schema": "fixed" if self.schema is None else strip_fn(self.schema), "note": self.note}


def strip_fn(x):
    if isinstance(x, dict):
        return {k: strip_fn(v) for k, v in x.items() if not callable(v)}
    if isinstance(x, (list, tuple)):
        return [strip_fn(v) for v in x]
    return x


def attach_metadata(query: str, metadata: List[Dict[str, Any]]) -> str:
    src = "ds"
    for md in metadata:
        src = f"MetaData({src}, {md!r})"
    return re.sub(r"\bds\b", lambda m: src, query, count=1)


def members_used(schema, query: str) -> List[Dict[str, Any]]:
    "metadata declarations for every declared member whose name occurs in the query text"
    out, seen = [], set()
    for cls, c in schema["classes"].items():
        for n in c["members"]:
            if re.search(rf"\.{re.escape(n)}\b", query):
                for md in sch.member_metadata(schema, cls, n):
                    key = repr(sorted(md.items()))
                    if key not in seen:
                        seen.add(key)
                        out.append(md)
    return out


def uses_float(schema, query: str) -> bool:
    for c in schema["classes"].values():
        for n, m in c["members"].items():
            if m.get("ctype") == "float" and re.search(rf"\.{re.escape(n)}\b", query):
                return True
    return "getAttributeFloat" in query


# ---------------------------------------------------------------- comparison
def same(a, b, tol) -> bool:
    if isinstance(a, (list, tuple)) or isinstance(b, (list, tuple)):
        return isinstance(a, (list, tuple)) and isinstance(b, (list, tuple)) and len(a) == len(b) and all(same(x, y, tol) for x, y in zip(a, b))
    if isinstance(a, str) or isinstance(b, str):
        return a == b
    try:
        fa, fb = float(a), float(b)
    except (TypeError, ValueError):
        return False
    if math.isnan(fa) or math.isnan(fb):
        return math.isnan(fa) and math.isnan(fb)
    if math.isinf(fa) or math.isinf(fb):
        return fa == fb
    return abs(fa - fb) <= tol * max(1.0, abs(fa), abs(fb))


def rowvals(r) -> List[Any]:
    if isinstance(r, dict):
        return list(r.values())
    if isinstance(r, tuple):
        return list(r)
    return [r]


FIRST_MSG = "First() called on an empty sequence"


def fault_matches(kind: str, ob: Dict[str, Any], backend: str) -> bool:
    """A fault is 'loud' when the framework sees it: an exception leaving the per-event method or
    (ATLAS) a FAILURE status.  WHICH of several faults of one event fires first is not fixed by the
    property (the columns of a row have no evaluation order), so any loud ending matches; a crash
    that only a sanitizer would notice (status CRASH) or a normal ending does not."""
    st = ob["status"]
    if kind == "missing_bank" and backend == "atlas":
        return st == "FAILURE" and not ob["rows"]
    return st in ("THROW", "FAILURE")


def compare_event(ref, ob: Optional[Dict[str, Any]], backend: str, tol: float, col_tols: Optional[List[float]] = None) -> Optional[str]:
    "None if the observation agrees with the (decided) reference outcome, else a description"
    if ob is None or ob["status"] is None:
        return "event never ran to an EVENT_END record"
    bad_flags = [f for f in ob["flags"] if f.split(" ")[0] in ("NULL_DEREF", "INVALID_HANDLE_DEREF", "TOKEN_UNINITIALIZED", "TREE_MISSING", "BOOK_DUPLICATE")]
    if ref[0] == "FAULT":
        if fault_matches(ref[1], ob, backend):
            return None
        return f"query is undefined here ({ref[1]}) but the job ended the event with status={ob['status']} what={ob.get('what')!r} rows={len(ob['rows'])}"
    # ROWS
    if ob["status"] != "OK":
        return f"query is defined here but the job faulted: status={ob['status']} what={ob.get('what')!r}"
    if bad_flags and not (ref[0] == "FAULT"):
        if any(f.startswith(("NULL_DEREF", "TOKEN_UNINIT", "TREE_MISSING", "BOOK_DUP")) for f in bad_flags):
            return f"monitor flag on a defined event: {bad_flags[0]}"
    exp = [rowvals(r) for r in ref[1]]
    got = [[v for _, v in row["cols"]] for row in ob["rows"]]
    if len(exp) != len(got):
        return f"row count differs: expected {len(exp)} rows {exp!r:.300}, job wrote {len(got)} rows {got!r:.300}"
    for i, (e, g) in enumerate(zip(exp, got)):
        if len(e) != len(g):
            return f"row {i}: column count differs: expected {e!r:.200}, got {g!r:.200}"
        for c, (x, y) in enumerate(zip(e, g)):
            if not same(x, y, max(tol, col_tols[c]) if col_tols and c < len(col_tols) else tol):
                return f"row {i} column {c}: expected {x!r:.200}, job wrote {y!r:.200}"
    return None


# ---------------------------------------------------------------- engine
class Engine:
    def __init__(self, ctx: Ctx, sanitize: bool = True):
        self.ctx = ctx
        self.models: Dict[str, edm.Model] = {}
        self.sanitize = sanitize
        self._n = 0

    def model(self, backend: str, schema=None) -> edm.Model:
        key = backend if schema is None else backend + ":" + str(id(schema))
        if key not in self.models:
            s = sch.clone(sch.fixed(backend)) if schema is None else schema
            self.models[key] = edm.Model(s, self.ctx.scratch / f"model_{len(self.models)}_{backend}", sanitize=self.sanitize)
        return self.models[key]

    def drop_model(self, backend: str, schema):
        key = backend + ":" + str(id(schema))
        m = self.models.pop(key, None)
        if m:
            shutil.rmtree(m.root, ignore_errors=True)

    def translate(self, cases: List[Case], monitors: List[str] = (), parallel: Optional[int] = None) -> List[Dict[str, Any]]:
        reqs = []
        for c in cases:
            self._n += 1
            out = self.ctx.scratch / "pkg" / f"p{self._n}"
            c._pkg = out  # type: ignore
            reqs.append({"args": {"backend": c.backend, "query": c.full_query(), "out": str(out), "wire": c.wire, "monitors": list(monitors),
                                  "pre_queries": list(getattr(c, "pre_queries", []))}})
        kw = {} if parallel is None else {"parallel": parallel}
        return run_batch(reqs, self.ctx.scratch, **kw)

    def reference(self, case: Case) -> List[Tuple[str, Any, List]]:
        s = case.schema or sch.fixed(case.backend)
        comp = refrt.Compiled(parse_query(case.full_query()), s, case.extra_globals, allow_nonfinite=getattr(case, 'allow_nonfinite', False))
        return [refrt.decide_event(comp, ev) for ev in case.events]

    def build_and_run(self, case: Case, keep: bool = False, event_lists: Optional[List[List[int]]] = None) -> Dict[str, Any]:
        """Compile + run one translated case.  event_lists: optional list of index lists into
        case.events (each run as its own job invocation); default one run over all events."""
        model = self.model(case.backend, case.schema)
        jobdir = Path(str(case._pkg) + "_job")  # type: ignore
        b = cxx.build_job(model, case._pkg, jobdir)  # type: ignore
        res: Dict[str, Any] = {"build": b}
        if b["ok"]:
            runs = []
            lists = event_lists or [list(range(len(case.events)))]
            for i, idxs in enumerate(lists):
                evf = jobdir / f"ev{i}.txt"
                evf.write_text(edm.serialize_events(model.schema, [case.events[k] for k in idxs]))
                runs.append(cxx.run_job(b["exe"], str(evf), len(idxs)))
            res["runs"] = runs
        if not keep:
            shutil.rmtree(jobdir, ignore_errors=True)
            shutil.rmtree(case._pkg, ignore_errors=True)  # type: ignore
        return res

    def judge(self, case: Case, run: Dict[str, Any], refs: List[Tuple[str, Any, List]], idxs: Optional[List[int]] = None) -> Dict[str, Any]:
        s = case.schema or sch.fixed(case.backend)
        tol = max(1e-5 if uses_float(s, case.query) else 1e-9, getattr(case, "min_tol", 0.0))
        idxs = idxs if idxs is not None else list(range(len(case.events)))
        # a column booked as (vector of) float carries 24 bits and is logged with 9 significant digits
        col_tols = [1e-6 if "float" in b["type"] else 0.0 for b in (run["book"][0]["branches"] if run.get("book") else [])]
        out = {"decided": 0, "unspec": 0, "faults": 0, "rows": 0, "mismatch": None, "harness": None}
        for pos, k in enumerate(idxs):
            ref = refs[k]
            ob = run["events"].get(pos)
            if ob is not None and any(f.startswith("MODEL_MISSING") for f in ob["flags"]):
                out["harness"] = f"model lacks a member the query used: {ob['flags'][0]}"
                return out
            if ref[0] == "UNSPEC":
                out["unspec"] += 1
                continue
            out["decided"] += 1
            if ref[0] == "FAULT":
                out["faults"] += 1
            else:
                out["rows"] += len(ref[1])
            why = compare_event(ref, ob, case.backend, tol, col_tols)
            if why is not None:
                out["mismatch"] = {"event": k, "why": why, "reference": repr(ref[:2])[:500],
                                   "observed": (repr({kk: vv for kk, vv in ob.items() if kk != 'retrieves'})[:600] if ob else None)}
                return out
        return out


def differential(ctx: Ctx, eng: Engine, cases: List[Case], on_result: Callable[[Case, Dict[str, Any]], None]):
    """Translate all cases, then build/run/judge in parallel.  on_result(case, result) is called
    in the main thread with result = {'translate', 'build', 'verdict', 'refs', 'run'}."""
    trs = eng.translate(cases)

    def work(item):
        case, tr = item
        res: Dict[str, Any] = {"translate": tr}
        if tr["status"] != "ok":
            shutil.rmtree(case._pkg, ignore_errors=True)  # type: ignore
            return res
        try:
            refs = eng.reference(case)
        except Exception as e:  # reference cannot evaluate: generator/harness problem, not a verdict
            res["harness"] = f"reference failed: {type(e).__name__}: {e}"
            shutil.rmtree(case._pkg, ignore_errors=True)  # type: ignore
            return res
        res["refs"] = refs
        try:
            br = eng.build_and_run(case)
            res["build"] = br["build"]
            if br["build"]["ok"]:
                res["run"] = br["runs"][0]
                res["verdict"] = eng.judge(case, br["runs"][0], refs)
        except Exception as e:  # never let one case take the whole check down
            import traceback
            res["harness"] = f"build/run/judge failed: {type(e).__name__}: {e} :: {traceback.format_exc()[-300:]}"
        return res

    # models must exist before threads race to create them
    for c in cases:
        eng.model(c.backend, c.schema)
    results = parallel_map(work, list(zip(cases, trs)))
    for c, r in zip(cases, results):
        on_result(c, r)
    return results
