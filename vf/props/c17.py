"""C17 - local docker execution runs the right image on the right files, or raises.

The real LocalDataset classes run against a stand-in python_on_whales (vf/stubs/pow) that
records every docker.run and plays a scripted container (success / DockerException after k
output chunks / no result file).  Every case runs in a FRESH interpreter (and again as part
of multi-step sequences inside one interpreter); temp directories are tracked with an audit
hook on tempfile.mkdtemp."""
from __future__ import annotations

import json
import os
import subprocess
import sys
from pathlib import Path
from typing import Any, Dict, List, Optional

from ..core import PY, REPO, VERIF, Ctx, parallel_map

RULE = ("3 dataset classes x file lists (1-4 files, str/Path/mixed, single value, same/different directories, duplicates, blanks in names, symbolic links inside / out of the directory, missing files, empty list) "
        "x image/tag x docker metadata {none, one, two, A-B-A} x output directory {default, given} x container outcomes {ok, DockerException after each k-th chunk, no result file}; "
        "each in a fresh interpreter and in 2-3 step sequences (new dataset per step, and ONE dataset object serving several queries); distinct = distinct (class, file-list class, metadata, outdir, outcome); non-trivial = reaches the constructor with at least one file")
ASSUME = ["vf/stubs/pow/python_on_whales stands for the docker client: it sees the host only through the requested volume mounts",
          "queries are run through the public func_adl API (ds.Select(...).value())"]

DEFAULT_IMAGE = {"atlas": "atlas/analysisbase:21.2.197", "cms_aod": "cmsopendata/cmssw_5_3_32:conddb_20210705", "cms_miniaod": "cmsopendata/cmssw_7_6_7-slc6_amd64_gcc493:latest"}
QUERY = {"atlas": "lambda e: e.EventInfo('EventInfo').runNumber()", "cms_aod": "lambda e: e.Muons('muons').Count()", "cms_miniaod": "lambda e: e.Muons('slimmedMuons').Count()"}
CACHE = {"atlas": [("func_adl_atlas_xaod_calibration_cache", "/xaod_calibration_cache")], "cms_aod": [], "cms_miniaod": []}


# ------------------------------------------------------------------ worker side (fresh /venv interpreter)
def _dataset_class(cls):
    if cls == "atlas":
        from func_adl_xAOD.atlas.xaod.local_dataset import xAODDataset
        return xAODDataset
    if cls == "cms_aod":
        from func_adl_xAOD.cms.aod.local_dataset import CMSRun1AODDataset
        return CMSRun1AODDataset
    from func_adl_xAOD.cms.miniaod.local_dataset import CMSRun2miniAODDataset
    return CMSRun2miniAODDataset


def execute_step(step: Dict[str, Any], base: Path, idx: int, mkdtemps: List[str], state: Optional[Dict[str, Any]] = None) -> Dict[str, Any]:
    import python_on_whales as pow_

    obs: Dict[str, Any] = {"ctor_exc": None, "run_exc": None, "returned": None, "calls": [], "containers": 0}
    dirs = [base / f"s{idx}_data{d}" for d in range(3)]
    for d in dirs:
        d.mkdir(parents=True, exist_ok=True)
    files = []
    for f in step["files"]:
        p = dirs[f["dir"]] / f["name"]
        if f.get("link_to"):
            t = dirs[f["link_to"]["dir"]] / f["link_to"]["name"]
            t.write_text("data")
            if not p.is_symlink():
                p.symlink_to(t)
        elif f.get("exists", True):
            p.write_text("data")
        if f.get("relative"):
            os.chdir(base)
            p = Path(os.path.relpath(p, base))
        files.append(str(p) if f.get("as", "str") == "str" else p)
    arg: Any = files
    if step.get("single"):
        arg = files[0]
    outdir = None
    if step["outdir"] == "given":
        outdir = base / f"s{idx}_out"
        outdir.mkdir(exist_ok=True)
    kw: Dict[str, Any] = {}
    if step.get("image"):
        kw["docker_image"], kw["docker_tag"] = step["image"].rsplit(":", 1)
    if outdir is not None:
        kw["output_directory"] = outdir
    obs["cwd"] = os.getcwd()
    pow_.CALLS.clear()
    pow_.CONTAINERS_STARTED[0] = 0
    pow_.SCRIPT.clear()
    pow_.SCRIPT.clear()
    pow_.SCRIPT.update({"outcome": "ok", "k": 0, "nchunks": 3, "result_name": "ANALYSIS.root"})
    pow_.SCRIPT.update(step["outcome"])
    n_before = len(mkdtemps)
    state = state if state is not None else {}
    if step.get("reuse_ds") and "ds" in state:
        # the SAME dataset object serves a further query (ds = xAODDataset(files); ds.Select(..); ds.Select(..))
        ds, files = state["ds"], state["files"]
    else:
        try:
            ds = _dataset_class(step["cls"])(arg, **kw)
        except BaseException as e:  # noqa: B036
            obs["ctor_exc"] = {"type": type(e).__name__, "msg": str(e)[:300]}
            return obs
        state["ds"], state["files"] = ds, files
    try:
        q = ds
        for im in step.get("docker_md", []):
            q = q.MetaData({"metadata_type": "docker", "image": im})
        r = q.Select(QUERY[step["cls"]]).value()
        obs["returned"] = [{"path": str(p), "exists": Path(p).exists(), "content": Path(p).read_text() if Path(p).exists() else None} for p in r]
    except BaseException as e:  # noqa: B036
        obs["run_exc"] = {"type": type(e).__name__, "msg": str(e)[:300]}
    obs["calls"] = list(pow_.CALLS)
    obs["containers"] = pow_.CONTAINERS_STARTED[0]
    obs["tempdirs"] = [{"path": p, "exists_after": os.path.exists(p)} for p in mkdtemps[n_before:]]
    obs["outdir"] = str(outdir) if outdir else None
    obs["dirs"] = [str(d) for d in dirs]
    obs["files"] = [str(f) for f in files]
    import tempfile
    obs["system_tmp"] = tempfile.gettempdir()
    return obs


def worker_main(casefile: str):
    case = json.loads(Path(casefile).read_text())
    base = Path(case["base"])
    mkdtemps: List[str] = []

    def hook(event, args):
        if event == "tempfile.mkdtemp":
            mkdtemps.append(args[0])
    sys.addaudithook(hook)
    out = []
    state: Dict[str, Any] = {}
    for i, step in enumerate(case["steps"]):
        out.append(execute_step(step, base, i, mkdtemps, state))
    Path(casefile + ".out").write_text(json.dumps(out, default=str))


# ------------------------------------------------------------------ harness side
def file_lists(R) -> List[Dict[str, Any]]:
    "a few classes of file lists: (label, files, single, expectation)"
    names = ["a.root", "b.root", "c d.root", "e.root"]
    out = []
    out.append(("one_str", [{"dir": 0, "name": "a.root"}], False, "ok"))
    out.append(("single_str", [{"dir": 0, "name": "a.root"}], True, "ok"))
    out.append(("single_path", [{"dir": 0, "name": "a.root", "as": "path"}], True, "ok"))
    n = R.choice([2, 3, 4])
    out.append(("many_same_dir", [{"dir": 0, "name": names[i], "as": R.choice(["str", "path"])} for i in range(n)], False, "ok"))
    perm = list(range(n))
    R.shuffle(perm)
    out.append(("many_shuffled", [{"dir": 0, "name": names[i], "as": "path"} for i in perm], False, "ok"))
    out.append(("duplicate", [{"dir": 0, "name": "a.root"}, {"dir": 0, "name": "a.root"}], False, "ok"))
    out.append(("symlink_to_other_dir", [{"dir": 0, "name": "a.root", "link_to": {"dir": 1, "name": "target.root"}}], False, "ok"))
    out.append(("plain_and_symlink", [{"dir": 0, "name": "a.root"}, {"dir": 0, "name": "l.root", "link_to": {"dir": 1, "name": "target.root"}}], False, "ok"))
    out.append(("symlink_same_dir", [{"dir": 0, "name": "l.root", "link_to": {"dir": 0, "name": "target.root"}}, {"dir": 0, "name": "b.root"}], False, "ok"))
    # shell-wildcard characters that are part of the NAME (a file really called run[1].root next to run1.root)
    out.append(("glob_chars_in_name", [{"dir": 0, "name": "run[1].root"}, {"dir": 0, "name": "run1.root"}], False, "ok"))
    out.append(("glob_chars_alone", [{"dir": 0, "name": "part[0-9]*.root"}], False, "ok"))
    out.append(("glob_question_mark", [{"dir": 0, "name": "a?.root"}, {"dir": 0, "name": "ab.root"}, {"dir": 0, "name": "e.root"}], False, "ok"))
    out.append(("blank_in_name", [{"dir": 0, "name": "c d.root"}], False, "ok"))
    # paths given relative to the working directory (the usual way to name a local file)
    out.append(("relative_paths", [{"dir": 0, "name": "a.root", "relative": True}, {"dir": 0, "name": "b.root", "relative": True}], False, "ok"))
    out.append(("relative_single", [{"dir": 0, "name": "a.root", "relative": True, "as": "path"}], True, "ok"))
    out.append(("different_dirs", [{"dir": 0, "name": "a.root"}, {"dir": 1, "name": "b.root"}], False, "different_dirs"))
    out.append(("different_dirs_late", [{"dir": 0, "name": "a.root"}, {"dir": 0, "name": "b.root"}, {"dir": 2, "name": "e.root"}], False, "different_dirs"))
    out.append(("missing_file", [{"dir": 0, "name": "a.root"}, {"dir": 0, "name": "nope.root", "exists": False}], False, "missing"))
    out.append(("empty_list", [], False, "empty"))
    return out


def make_cases(ctx: Ctx) -> List[Dict[str, Any]]:
    cases = []
    outcomes = [{"outcome": "ok"}] + [{"outcome": "fail_after", "k": k, "nchunks": 3} for k in range(4)] + [{"outcome": "no_result"}, {"outcome": "ok", "nchunks": 0}]
    # chatty containers: the failure (or the result) comes after many thousands of output chunks
    # the job wrote (part of) its result before the container failed: still a failure, nothing is returned
    outcomes += [{"outcome": "fail_after", "k": 2, "nchunks": 3, "write_at": 0}, {"outcome": "fail_after", "k": 3, "nchunks": 3, "write_at": 1}, {"outcome": "fail_after", "k": 5, "nchunks": 6, "write_at": 4}]
    # job output that is not (chunk-wise) valid UTF-8: it is log text, the run itself succeeded / failed as the container says
    outcomes += [{"outcome": "ok", "nchunks": 4, "chunk_bytes": "split_utf8"}, {"outcome": "ok", "nchunks": 3, "chunk_bytes": "latin1"},
                 {"outcome": "fail_after", "k": 3, "nchunks": 4, "chunk_bytes": "latin1"}]
    outcomes += [{"outcome": "ok", "nchunks": 20000}, {"outcome": "fail_after", "k": 19999, "nchunks": 20000}, {"outcome": "fail_after", "k": 20000, "nchunks": 20000}]
    i = 0
    for cls in ("atlas", "cms_aod", "cms_miniaod"):
        R = ctx.rng("c17", cls)
        fls = file_lists(R)
        for label, files, single, fexp in fls:
            for oc in (outcomes if fexp == "ok" and label in ("one_str", "many_same_dir") else [outcomes[0], outcomes[2], outcomes[5]]):
                for md in ([], ["my/image:1.0"], ["first/image:1", "second/image:2"], ["first/image:1", "second/image:2", "first/image:1"]):
                    if md and label not in ("one_str", "many_same_dir", "different_dirs"):
                        continue
                    for outdir in ("none", "given"):
                        if outdir == "given" and R.random() < 0.5 and not ctx.quick:
                            pass
                        # image names with a registry host:port prefix contain a ':' of their own
                        image = R.choice([None, "custom/img:9.9", "localhost:5000/atlas/analysisbase:21.2.197", "registry.example.org:443/cms/cmssw:slc6_amd64"])
                        step = {"cls": cls, "files": files, "single": single, "label": label, "fexp": fexp, "image": image, "docker_md": md, "outdir": outdir, "outcome": oc}
                        i += 1
                        if ctx.quick and i % 3 != ctx.seed % 3 and label not in ("one_str", "different_dirs", "missing_file", "empty_list"):
                            continue
                        cases.append({"steps": [step]})
        # sequences in one interpreter: metadata / failure / directories of one execution must not leak into the next
        ok1 = {"cls": cls, "files": fls[0][1], "single": False, "label": "one_str", "fexp": "ok", "image": None, "docker_md": ["seq/image:7"], "outdir": "given", "outcome": {"outcome": "ok"}}
        ok2 = dict(ok1, docker_md=[], image="other/img:2", outdir="none")
        bad = dict(ok1, docker_md=[], outcome={"outcome": "fail_after", "k": 1, "nchunks": 3})
        dd = dict(ok1, files=next(f for f in fls if f[0] == "different_dirs")[1], label="different_dirs", fexp="different_dirs", docker_md=[])
        # one dataset object, several queries: the docker metadata / failure of one query must not stick to the dataset
        same = dict(ok1, image="ctor/img:3", outdir="none")
        for seq in ([same, dict(same, docker_md=[], reuse_ds=True)], [dict(same, docker_md=[]), dict(same, reuse_ds=True), dict(same, docker_md=[], reuse_ds=True)],
                    [dict(same, outcome={"outcome": "fail_after", "k": 1, "nchunks": 3}), dict(same, docker_md=[], reuse_ds=True)],
                    [dict(same, image=None), dict(same, image=None, docker_md=["x/y:1", "z/w:2"], reuse_ds=True), dict(same, image=None, docker_md=[], reuse_ds=True)]):
            cases.append({"steps": [dict(s) for s in seq]})
        for seq in ([ok1, ok2], [bad, ok2], [dd, ok2, ok1], [ok2, bad, ok1]):
            cases.append({"steps": [dict(s) for s in seq]})
            other = "cms_aod" if cls != "cms_aod" else "atlas"
            cases.append({"steps": [dict(seq[0]), dict(seq[1], cls=other)]})
    return cases


def run_case(item) -> Dict[str, Any]:
    scratch, k, case = item
    base = Path(scratch) / f"case{k}"
    (base / "systmp").mkdir(parents=True, exist_ok=True)
    case = dict(case, base=str(base))
    cf = base / "case.json"
    cf.write_text(json.dumps(case))
    env = {k2: v for k2, v in os.environ.items() if k2 not in ("PYTHONSTARTUP",)}
    env.update({"PYTHONPATH": f"{REPO}:{VERIF}:{VERIF / 'vf' / 'stubs' / 'pow'}", "TMPDIR": str(base / "systmp"), "PYTHONHASHSEED": "0"})
    try:
        r = subprocess.run([PY, "-c", "import sys; from vf.props.c17 import worker_main; worker_main(sys.argv[1])", str(cf)],
                           capture_output=True, text=True, timeout=120, env=env, cwd=str(VERIF))
    except subprocess.TimeoutExpired:
        return {"case": case, "error": "timeout"}
    outp = Path(str(cf) + ".out")
    if not outp.exists():
        return {"case": case, "error": "worker died: " + r.stderr[-500:]}
    return {"case": case, "obs": json.loads(outp.read_text())}


def judge_step(step: Dict[str, Any], obs: Dict[str, Any]) -> Optional[str]:
    fexp = step["fexp"]
    if fexp in ("missing", "empty"):
        if obs["ctor_exc"] is None:
            return f"file list class {step['label']} accepted by the constructor"
        if obs["ctor_exc"]["type"] == "AssertionError":
            return f"constructor failed with a bare AssertionError instead of an input error: {obs['ctor_exc']}"
        return None
    if obs["ctor_exc"] is not None:
        return f"valid file list {step['label']} refused at construction: {obs['ctor_exc']}"
    leftovers = [t["path"] for t in obs.get("tempdirs", []) if t["exists_after"]]
    if leftovers:
        return f"temporary working directory not removed: {leftovers}"
    if not obs.get("tempdirs") and fexp == "ok":
        return "INCONCLUSIVE: no temporary directory creation was observed (audit hook saw nothing)"
    if fexp == "different_dirs":
        if obs["run_exc"] is None or obs["run_exc"]["type"] != "RuntimeError":
            return f"files from different directories: expected RuntimeError, got {obs['run_exc']} returned={obs['returned']}"
        if obs["containers"] != 0:
            return f"files from different directories: {obs['containers']} container(s) were started before the error"
        return None
    oc = step["outcome"]
    calls = obs["calls"]
    must_fail = oc["outcome"] in ("fail_after", "no_result")
    if len(calls) != 1:
        return f"{len(calls)} containers started for one query (run_exc={obs['run_exc']})"
    c = calls[0]
    want_image = step["docker_md"][-1] if step["docker_md"] else (step["image"] or DEFAULT_IMAGE[step["cls"]])
    # several docker blocks: the property does not say which one wins; a positional rule (first or last) is accepted
    if step["docker_md"] and c["image"] not in (step["docker_md"][0], step["docker_md"][-1]):
        return f"docker metadata names {step['docker_md']} but image {c['image']!r} was run"
    if not step["docker_md"] and c["image"] != want_image:
        return f"image {c['image']!r} was run, expected {want_image!r}"
    if c["command"] != ["/scripts/runner.sh"]:
        return f"command {c['command']} instead of ['/scripts/runner.sh']"
    if not c["remove"] or not c["stream"]:
        return f"docker.run flags remove={c['remove']} stream={c['stream']}"
    vols = {v[1].rstrip("/") or "/": v for v in c["volumes"]}
    sd = c["seen"].get("scripts_dir")
    for point, mode in (("/scripts", "ro"), ("/results", "rw")):
        if point not in vols or vols[point][0] != sd or (len(vols[point]) > 2 and vols[point][2] != mode) or (len(vols[point]) < 3 and mode == "ro"):
            return f"mount {point}: {vols.get(point)} (package directory {sd}, expected mode {mode})"
    # the directory that holds the inputs, as an absolute path (docker takes any other volume source for the name of a volume)
    datadir = os.path.normpath(str(Path(obs.get("cwd") or ".") / Path(obs["files"][0]).parent))
    if "/data" not in vols or os.path.normpath(vols["/data"][0]) != datadir or not os.path.isabs(vols["/data"][0]) or len(vols["/data"]) < 3 or vols["/data"][2] != "ro":
        return f"mount /data: {vols.get('/data')} expected ({datadir}, ro)"
    extra = sorted((v[0], v[1]) for p, v in vols.items() if p not in ("/scripts", "/results", "/data"))
    if extra != sorted(CACHE[step["cls"]]):
        return f"cache volumes {extra}, expected {CACHE[step['cls']]}"
    want_list = "".join(f"/data/{Path(f).name}\n" for f in obs["files"])
    if c["seen"].get("filelist") != want_list:
        return f"filelist.txt seen by the container {c['seen'].get('filelist')!r}, expected {want_list!r}"
    missing = [Path(f).name for f in obs["files"] if Path(f).name not in (c["seen"].get("data_files") or [])]
    if missing:
        return f"listed input {missing} is not visible in the directory mounted at /data ({vols['/data'][0]}: {c['seen'].get('data_files')})"
    if not c["seen"].get("main_script_executable"):
        return "entry script missing or not executable inside /scripts"
    if must_fail:
        if obs["run_exc"] is None:
            return f"container outcome {oc}: no exception reached the caller, returned {obs['returned']}"
        if oc["outcome"] == "fail_after" and obs["run_exc"]["type"] != "DockerException":
            return f"container failed with DockerException but the caller saw {obs['run_exc']}"
        return None
    if obs["run_exc"] is not None:
        return f"successful container run but the caller got {obs['run_exc']}"
    ret = obs["returned"]
    if not ret or len(ret) != 1:
        return f"returned {ret}"
    want_dir = obs["outdir"] or obs["system_tmp"]
    if str(Path(ret[0]["path"]).parent) != str(Path(want_dir)) or Path(ret[0]["path"]).name != "ANALYSIS.root":
        return f"result returned at {ret[0]['path']}, expected in {want_dir}"
    if not ret[0]["exists"] or not (ret[0]["content"] or "").startswith(f"RESULT image={c['image']} "):
        return f"returned file is not the container's result: {ret[0]}"
    return None


def run(ctx: Ctx) -> int:
    cases = make_cases(ctx)
    if ctx.replay:
        cases = [json.loads(Path(ctx.replay).read_text())["case"]]
    results = parallel_map(run_case, [(str(ctx.scratch), k, c) for k, c in enumerate(cases)])
    for r in results:
        if "error" in r:
            ctx.count("harness_errors")
            ctx.inconclusive.append(r["error"][:300])
            continue
        for i, (step, obs) in enumerate(zip(r["case"]["steps"], r["obs"])):
            ctx.count("evaluations")
            ctx.count("docker_run_calls_recorded", len(obs.get("calls", [])))
            ctx.count("tempdirs_tracked", len(obs.get("tempdirs", []) or []))
            why = judge_step(step, obs)
            if why and why.startswith("INCONCLUSIVE"):
                ctx.inconclusive.append(why)
            elif why:
                rep = {"steps": r["case"]["steps"][: i + 1]}
                ctx.violation(rep, f"[{step['cls']}] step {i} of {len(r['case']['steps'])} files={step['label']} md={step['docker_md']} outcome={step['outcome']}: {why}")
                break
            else:
                ctx.seen((step["cls"], step["label"], len(step["docker_md"]), step["outdir"], json.dumps(step["outcome"], sort_keys=True), i), bool(step["files"]))
        if len(r["case"]["steps"]) > 1:
            ctx.sample({"sequence": [{k: s[k] for k in ("cls", "label", "docker_md", "outdir", "outcome")} for s in r["case"]["steps"]]}, 3)
    return ctx.finish("fault_enumeration", RULE, ASSUME)
