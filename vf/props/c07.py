"""C07 - translating a query is independent of every query handled before it.

For random histories H (successful and failing translations on reused and new executors, with
metadata declaring method types, enums, collections, functions, job scripts, inject code,
extended metadata) and sensitive probe queries P, the name-normalised package (or the error)
obtained for P after H in one process is compared with the one obtained for P as the first
query of a pristine process.  A second monitor snapshots the process-global registries after
every step (diagnosis: which step leaked what)."""
from __future__ import annotations

import json
import random
import re
from pathlib import Path
from typing import Any, Dict, List, Optional, Tuple

from ..core import Ctx
from ..xlate import run_batch

RULE = ("random histories of 1-6 (quick) / up to 25 (thorough) steps drawn from a pool of queries x metadata x outcomes (success; malformed later metadata; unsupported construct; "
        "missing output directory; injected exception at a random line of executor.py/meta_data.py in the thorough tier), each followed by every probe query; "
        "distinct = distinct (history step kinds incl. outcome and executor reuse, probe); non-trivial = history with at least 2 steps or a failing step")
ASSUME = ["'up to numbering of generated names': every identifier ending in digits is renumbered by first occurrence, identically on both sides",
          "the pristine reference is a fork()ed child of an interpreter that has only imported func_adl_xAOD (thorough tier re-checks a sample against truly fresh interpreters)"]

BACKENDS = ["atlas", "cms_aod", "cms_miniaod"]
MAIN = {"atlas": ("Jets", "xAOD::Jet"), "cms_aod": ("Muons", "reco::Muon"), "cms_miniaod": ("Muons", "pat::Muon")}


# ------------------------------------------------------------------ normalisation
_ID = re.compile(r"\b([A-Za-z_][A-Za-z_0-9]*?)(\d+)\b")


def normalise(text: str) -> str:
    seen: Dict[str, str] = {}

    def rep(m):
        k = m.group(0)
        if k not in seen:
            seen[k] = f"{m.group(1)}#{len(seen)}"
        return seen[k]
    return _ID.sub(rep, text)


def norm_msg(msg: str) -> str:
    return re.sub(r"\d+", "#", msg)[:300]


# ------------------------------------------------------------------ pools
def md_pool(backend: str) -> Dict[str, List[Dict[str, Any]]]:
    coll, cls = MAIN[backend]
    p: Dict[str, List[Dict[str, Any]]] = {}
    p["method_int"] = [{"metadata_type": "add_method_type_info", "type_string": cls, "method_name": "nTrk", "return_type": "int"}]
    p["method_vec"] = [{"metadata_type": "add_method_type_info", "type_string": cls, "method_name": "trkPts", "return_type_element": "float"}]
    p["method_ptr"] = [{"metadata_type": "add_method_type_info", "type_string": cls, "method_name": "other", "return_type": cls + "*", "deref_count": 1}]
    p["method_pt_float"] = [{"metadata_type": "add_method_type_info", "type_string": cls, "method_name": "pt", "return_type": "float"}]
    # declarations on types for which the backend installs DEFAULT method types at construction / reset
    p["method_on_default_type"] = [{"metadata_type": "add_method_type_info", "type_string": "xAOD::TruthParticle", "method_name": "pdgId", "return_type": "int"},
                                   {"metadata_type": "add_method_type_info", "type_string": "reco::Muon", "method_name": "charge2", "return_type": "int"},
                                   {"metadata_type": "add_method_type_info", "type_string": "pat::Muon", "method_name": "charge2", "return_type": "int"}]
    p["override_default"] = [{"metadata_type": "add_method_type_info", "type_string": "xAOD::TruthParticle", "method_name": "prodVtx", "return_type": "float"},
                             {"metadata_type": "add_method_type_info", "type_string": "reco::Muon", "method_name": "isPFMuon", "return_type": "int"},
                             {"metadata_type": "add_method_type_info", "type_string": "pat::Muon", "method_name": "isPFMuon", "return_type": "int"},
                             {"metadata_type": "add_method_type_info", "type_string": "reco::Track", "method_name": "hitPattern", "return_type": "int"}]
    # numeric types outside bool/int/float/double
    p["method_uint"] = [{"metadata_type": "add_method_type_info", "type_string": cls, "method_name": "nHitsU", "return_type": "unsigned int"}]
    p["method_long"] = [{"metadata_type": "add_method_type_info", "type_string": cls, "method_name": "bigN", "return_type": "long"}]
    p["enum"] = [{"metadata_type": "define_enum", "namespace": "xAOD.Jet", "name": "Color", "values": ["Red", "Blue"]}]
    p["enum2"] = [{"metadata_type": "define_enum", "namespace": "Trig", "name": "Bits", "values": ["A", "B"]}]
    decl = {"atlas": {"metadata_type": "add_atlas_event_collection_info", "name": "MyJets", "include_files": ["xAODJet/JetContainer.h"], "container_type": "xAOD::JetContainer",
                      "element_type": "xAOD::Jet", "contains_collection": True},
            "cms_aod": {"metadata_type": "add_cms_aod_event_collection_info", "name": "MyJets", "include_files": ["DataFormats/MuonReco/interface/Muon.h"],
                        "container_type": "reco::MuonCollection", "element_type": "reco::Muon", "contains_collection": True, "element_pointer": False},
            "cms_miniaod": {"metadata_type": "add_cms_miniaod_event_collection_info", "name": "MyJets", "include_files": ["DataFormats/PatCandidates/interface/Muon.h"],
                            "container_type": "pat::MuonCollection", "element_type": "pat::Muon", "contains_collection": True, "element_pointer": False}}[backend]
    p["collection"] = [decl]
    p["function"] = [{"metadata_type": "add_cpp_function", "name": "MyFunc", "include_files": ["myfunc.h"], "arguments": ["x"], "code": ["auto result = x * 2;"], "return_type": "double"}]
    # a second plug-in with headers of its own, and a method-style one: what one query's plug-ins ask for (headers, code,
    # the table of callable names) must not reach a later query that calls ANOTHER plug-in, a built-in one, or none
    p["function2"] = [{"metadata_type": "add_cpp_function", "name": "OtherFunc", "include_files": ["otherfunc.h", "vector"], "arguments": ["a", "b"], "code": ["auto result = a - b;"], "return_type": "double"}]
    p["method_function"] = [{"metadata_type": "add_cpp_function", "name": "scaledPt", "include_files": ["scaled.h"], "arguments": ["f"], "code": ["auto result = obj->pt() * f;" if backend == "atlas" else "auto result = obj.pt() * f;"],
                             "method_object": "obj", "instance_object": cls, "return_type": "double"}]
    # a data member (read without a call), declared
    p["member_int"] = [{"metadata_type": "add_method_type_info", "type_string": cls, "method_name": "nMember", "return_type": "int"}]
    p["job_script"] = [{"metadata_type": "add_job_script", "name": "js1", "script": ["print('js1 line')"], "depends_on": []}]
    p["job_script_dep"] = [{"metadata_type": "add_job_script", "name": "js2", "script": ["print('js2')"], "depends_on": ["js1"]},
                           {"metadata_type": "add_job_script", "name": "js1", "script": ["print('js1 line')"], "depends_on": []}]
    p["inject"] = [{"metadata_type": "inject_code", "name": "blk", "body_includes": ["injected.h"], "private_members": ["int m_injected;"], "link_libraries": ["InjectedLib"]}]
    p["docker"] = [{"metadata_type": "docker", "image": "leaky/image:1"}]
    return p


BAD_MD = [{"metadata_type": "no_such_metadata"}, {"metadata_type": "add_method_type_info", "type_string": "X"},
          {"metadata_type": "inject_code", "name": "b2", "bogus_field": ["x"]}, {"metadata_type": "add_job_script", "name": "js9", "script": ["x"], "depends_on": ["absent"]}]


def history_queries(backend: str) -> List[str]:
    coll = MAIN[backend][0]
    return [f"Select({{ds}}, lambda e: e.{coll}('A').Select(lambda j: j.pt()))",
            f"Select({{ds}}, lambda e: e.{coll}('A').Select(lambda j: j.nTrk()))",
            f"Select({{ds}}, lambda e: e.{coll}('A').Select(lambda j: j.trkPts().Count()))",
            f"Select({{ds}}, lambda e: e.{coll}('A').Count())",
            f"Select({{ds}}, lambda e: e.{coll}('A').Where(lambda j: j.pt() > 1.0).Select(lambda j: j.eta()).First())",
            f"Select({{ds}}, lambda e: e.MyJets('Z').Count())",
            # arithmetic on other declared numeric types; abs() of an integer and of a float
            f"Select({{ds}}, lambda e: e.{coll}('A').Select(lambda j: j.nHitsU() * 2))",
            f"Select({{ds}}, lambda e: e.{coll}('A').Select(lambda j: j.bigN() + j.nHitsU()))",
            f"Select({{ds}}, lambda e: abs(e.{coll}('A').Count() - 2))",
            f"Select({{ds}}, lambda e: e.{coll}('A').Select(lambda j: abs(j.pt())))",
            # constants that compare equal to the ones the constant probes use (0.0 vs -0.0, 1 vs 1.0 vs True ...)
            f"Select(SelectMany({{ds}}, lambda e: e.{coll}('A')), lambda j: (j.pt() * 0.0, j.pt() + 1, 2.0, False))",
            f"Select(SelectMany({{ds}}, lambda e: e.{coll}('A')), lambda j: (j.pt() * NEGZERO, j.pt() + 1.0, 2, True, 0))",
            f"Select({{ds}}, lambda e: e.{coll}('A').Select(lambda j: MyFunc(j.pt())))",
            f"Select({{ds}}, lambda e: e.{coll}('A').Where(lambda j: j.color() == xAOD.Jet.Color.Red).Count())",
            # plug-ins: a second one, a method-style one, the built-in DeltaR; a data member read with and without a declaration
            f"Select({{ds}}, lambda e: e.{coll}('A').Select(lambda j: OtherFunc(j.pt(), j.eta())))",
            f"Select({{ds}}, lambda e: e.{coll}('A').Select(lambda j: j.scaledPt(2.0)))",
            f"Select({{ds}}, lambda e: e.{coll}('A').Select(lambda j: DeltaR(j.eta(), j.phi(), 0.5, 0.25)))",
            f"Select({{ds}}, lambda e: e.{coll}('A').Select(lambda j: j.nMember))",
            f"Select({{ds}}, lambda e: e.{coll}('A').Select(lambda j: j.other().nMember + j.nMember))",
            # very long chains: whatever the interpreter's limits make of them, it is the same for the next query
            deep_chain(coll, 120), deep_chain(coll, 260)]


def deep_chain(coll: str, n: int, ds: str = "{ds}") -> str:
    "a chain of n Where steps in front of a Count: the depth of the query is n"
    # (method style: a nested function-style text of this depth is refused by Python's own parser)
    q = f"{ds}.Select(lambda e: e.{coll}('A'))"
    for k in range(n):
        q += f".Where(lambda c{k}: c{k}.Count() >= 0)" if k % 2 == 0 else f".Select(lambda c{k}: c{k})"
    return q + ".Select(lambda cz: cz.Count())"


UNSUPPORTED = ["Select({ds}, lambda e: e.%s('A').Select(lambda j: j.pt() // 2))", "Select({ds}, lambda e: e.%s('A').Select(lambda j: 1 < j.pt() < 2))",
               "Select({ds}, lambda e: e.%s('A').Select(lambda j: j.pt())[0:2])", "Select({ds}, lambda e: e.%s('A').Select(lambda j: j.getAttribute('x')))"]


def probes(backend: str) -> List[Tuple[str, str]]:
    coll, cls = MAIN[backend]
    P = [("undeclared_method", f"Select(ds, lambda e: e.{coll}('A').Select(lambda j: j.nTrk()))"),
         ("undeclared_vec", f"Select(ds, lambda e: e.{coll}('A').Select(lambda j: j.trkPts()))"),
         ("pt_default", f"Select(ds, lambda e: e.{coll}('A').Select(lambda j: j.pt() * 2))"),
         ("undeclared_enum", f"Select(ds, lambda e: e.{coll}('A').Where(lambda j: j.color() == xAOD.Jet.Color.Red).Count())"),
         ("undeclared_enum2", f"Select(ds, lambda e: e.{coll}('A').Where(lambda j: j.bits() == Trig.Bits.A).Count())"),
         ("undeclared_collection", "Select(ds, lambda e: e.MyJets('Z').Count())"),
         ("undeclared_function", f"Select(ds, lambda e: e.{coll}('A').Select(lambda j: MyFunc(j.pt())))"),
         ("plain", f"Select(ds, lambda e: (e.{coll}('A').Count(), e.{coll}('B').Select(lambda j: j.eta())))"),
         ("deref_method", f"Select(ds, lambda e: e.{coll}('A').Select(lambda j: j.other().pt()))"),
         ("default_typed_method", ("Select(ds, lambda e: e.TruthParticles('TP').Select(lambda p: p.prodVtx().x()))" if backend == "atlas" else f"Select(ds, lambda e: e.{coll}('A').Select(lambda j: j.isPFMuon()))")),
         ("undeclared_on_default_type", ("Select(ds, lambda e: e.TruthParticles('TP').Select(lambda p: p.pdgId()))" if backend == "atlas" else f"Select(ds, lambda e: e.{coll}('A').Select(lambda j: j.charge2()))")),
         ("constants_a", f"Select(SelectMany(ds, lambda e: e.{coll}('A')), lambda j: (j.pt() * NEGZERO, j.pt() + 1.0, 2, True, 0))"),
         ("constants_b", f"Select(SelectMany(ds, lambda e: e.{coll}('A')), lambda j: (j.pt() * 0.0, j.pt() + 1, 2.0, False, 1, 0.0))"),
         ("declared_inline", f"Select(MetaData(ds, {{'metadata_type': 'add_method_type_info', 'type_string': '{cls}', 'method_name': 'nTrk', 'return_type': 'int'}}), lambda e: e.{coll}('A').Select(lambda j: j.nTrk()))"),
         # the same enum name declared with OTHER content than an earlier query used
         ("declared_enum_other_content", f"Select(MetaData(ds, {{'metadata_type': 'define_enum', 'namespace': 'xAOD.Jet', 'name': 'Color', 'values': ['Red', 'Blue', 'Green']}}), lambda e: e.{coll}('A').Where(lambda j: j.color() == xAOD.Jet.Color.Green).Count())"),
         ("declared_other_enum_same_namespace", f"Select(MetaData(ds, {{'metadata_type': 'define_enum', 'namespace': 'xAOD.Jet', 'name': 'Quality', 'values': ['Loose', 'Tight']}}), lambda e: e.{coll}('A').Where(lambda j: j.color() == xAOD.Jet.Color.Red).Count())"),
         ("two_declared_numeric_types", f"Select(MetaData(MetaData(ds, {{'metadata_type': 'add_method_type_info', 'type_string': '{cls}', 'method_name': 'bigN', 'return_type': 'long'}}), {{'metadata_type': 'add_method_type_info', 'type_string': '{cls}', 'method_name': 'nHitsU', 'return_type': 'unsigned int'}}), lambda e: e.{coll}('A').Select(lambda j: j.bigN() * j.nHitsU()))"),
         ("two_declared_numeric_types_rev", f"Select(MetaData(MetaData(ds, {{'metadata_type': 'add_method_type_info', 'type_string': '{cls}', 'method_name': 'bigN', 'return_type': 'long'}}), {{'metadata_type': 'add_method_type_info', 'type_string': '{cls}', 'method_name': 'nHitsU', 'return_type': 'unsigned int'}}), lambda e: e.{coll}('A').Select(lambda j: j.nHitsU() - j.bigN()))"),
         ("abs_of_float", f"Select(ds, lambda e: e.{coll}('A').Select(lambda j: abs(j.pt()) + abs(j.eta())))"),
         ("abs_of_int", f"Select(ds, lambda e: abs(e.{coll}('A').Count() - 3) / 2)"),
         # plug-ins and data members
         ("undeclared_function2", f"Select(ds, lambda e: e.{coll}('A').Select(lambda j: OtherFunc(j.pt(), 1.0)))"),
         ("undeclared_method_function", f"Select(ds, lambda e: e.{coll}('A').Select(lambda j: j.scaledPt(3.0)))"),
         ("builtin_function", f"Select(ds, lambda e: e.{coll}('A').Select(lambda j: DeltaR(j.eta(), j.phi(), 0.0, 1.0)))"),
         ("declared_function_inline", f"Select(MetaData(ds, {{'metadata_type': 'add_cpp_function', 'name': 'Mine', 'include_files': ['mine.h'], 'arguments': ['x'], 'code': ['auto result = x + 1;'], 'return_type': 'double'}}), lambda e: e.{coll}('A').Select(lambda j: Mine(j.pt())))"),
         ("declared_function_same_name_other_code", f"Select(MetaData(ds, {{'metadata_type': 'add_cpp_function', 'name': 'MyFunc', 'include_files': ['mine2.h'], 'arguments': ['y'], 'code': ['auto result = y * 3;'], 'return_type': 'float'}}), lambda e: e.{coll}('A').Select(lambda j: MyFunc(j.eta())))"),
         ("undeclared_member", f"Select(ds, lambda e: e.{coll}('A').Select(lambda j: j.nMember))"),
         ("declared_member_inline", f"Select(MetaData(ds, {{'metadata_type': 'add_method_type_info', 'type_string': '{cls}', 'method_name': 'nMember', 'return_type': 'int'}}), lambda e: e.{coll}('A').Select(lambda j: j.nMember))"),
         ("deep_chain_200", deep_chain(coll, 200, "ds")), ("deep_chain_450", deep_chain(coll, 450, "ds")),
         ("docker_md_unknown", f"Select(MetaData(ds, {{'metadata_type': 'docker', 'image': 'x:y'}}), lambda e: e.{coll}('A').Count())"),
         ("job_script_self", "Select(MetaData(ds, {'metadata_type': 'add_job_script', 'name': 'js2', 'script': [\"print('js2')\"], 'depends_on': ['js1']}), lambda e: e.%s('A').Count())" % coll)]
    return P


# which probes can see a leak of which kind of declaration
SENSITIVE = {"method_int": ("undeclared_method", "declared_inline"), "method_vec": ("undeclared_vec",), "method_ptr": ("deref_method",), "method_pt_float": ("pt_default", "abs_of_float", "plain"),
             "method_on_default_type": ("undeclared_on_default_type",), "override_default": ("default_typed_method",), "method_uint": ("two_declared_numeric_types", "two_declared_numeric_types_rev"),
             "method_long": ("two_declared_numeric_types", "two_declared_numeric_types_rev"), "enum": ("undeclared_enum", "declared_enum_other_content", "declared_other_enum_same_namespace"),
             "enum2": ("undeclared_enum2",), "collection": ("undeclared_collection",), "function": ("undeclared_function", "declared_function_same_name_other_code", "builtin_function", "declared_function_inline"),
             "function2": ("undeclared_function2", "builtin_function", "declared_function_inline", "undeclared_function"), "method_function": ("undeclared_method_function", "builtin_function", "declared_function_inline"),
             "member_int": ("undeclared_member", "declared_member_inline"), "job_script": ("job_script_self", "plain"), "job_script_dep": ("job_script_self", "plain"), "inject": ("plain", "builtin_function"),
             "docker": ("docker_md_unknown", "plain"), "deep": ("deep_chain_200", "deep_chain_450"), "same_ast_object": ("declared_inline", "plain", "pt_default", "job_script_self", "constants_a", "default_typed_method")}


def gen_history(R: random.Random, maxlen: int, inject: bool) -> List[Dict[str, Any]]:
    n = R.randint(1, maxlen)
    H = []
    for _ in range(n):
        backend = R.choice(BACKENDS)
        pool = md_pool(backend)
        kinds = R.sample(sorted(pool), R.choice([0, 1, 1, 2, 3]))
        md = [m for k in kinds for m in pool[k]]
        R.shuffle(md)
        q = R.choice(history_queries(backend))
        if "lambda c100:" in q:
            kinds = kinds + ["deep"]
        for word, kind in (("OtherFunc", "function2"), ("scaledPt", "method_function"), ("MyFunc", "function")):
            if word in q and kind not in kinds and R.random() < 0.8:
                kinds = kinds + [kind]
                md = md + pool[kind]
        if "nMember" in q and "member_int" not in kinds and R.random() < 0.4:
            kinds = kinds + ["member_int"]
            md = md + pool["member_int"]
        if "xAOD.Jet.Color" in q and R.random() < 0.7 and "enum" not in kinds:
            kinds = kinds + ["enum"]   # a query that really USES an enum value (declaring one is not the same as resolving it)
            md = md + pool["enum"]
        # "interrupt": the translation is abandoned by a KeyboardInterrupt (Ctrl-C in a notebook: the process lives on and serves the next query)
        outcome = R.choice(["ok", "ok", "ok", "bad_md_last", "unsupported", "no_outdir", "interrupt"] + (["inject_exc"] if inject else []))
        if outcome == "bad_md_last":
            md = md + [R.choice(BAD_MD)]  # outermost MetaData is processed first: put the bad one innermost so earlier ones are registered
        if outcome == "unsupported":
            q = R.choice(UNSUPPORTED) % MAIN[backend][0]
        H.append({"backend": backend, "reuse": R.random() < 0.5, "md_kinds": kinds, "md": md, "query": q, "outcome": outcome,
                  "extended_md": "docker" in kinds or R.random() < 0.15, "exc_at": R.random()})
        if R.random() < 0.12:
            # the very query OBJECT a later probe will hand in again (a func_adl stream keeps its AST and may be run twice,
            # or two queries may share a sub-tree): translating it must not change it
            name, pq = R.choice([p for p in probes(backend) if p[0] in ("declared_inline", "plain", "pt_default", "job_script_self", "constants_a", "default_typed_method")])
            H.append({"backend": backend, "reuse": R.random() < 0.5, "md_kinds": ["same_ast_object:" + name], "md": [], "query": pq, "outcome": "ok", "extended_md": False, "exc_at": 0.0,
                      "share_ast": True})
    return H


def attach(q: str, md: List[Dict[str, Any]]) -> str:
    # func_adl processes metadata outermost first; the list order here is innermost first
    src = "ds"
    for m in md[::-1]:
        src = f"MetaData({src}, {m!r})"
    return q.replace("{ds}", src)


# ------------------------------------------------------------------ worker
def snapshot(executors) -> Dict[str, Any]:
    import func_adl_xAOD.common.cpp_types as ctyp
    import func_adl_xAOD.common.executor as ex
    d = {"method_types": sorted(f"{t}.{m}" for t, ms in ctyp.g_method_type_dict.items() for m in ms),
         "namespaces": sorted(ctyp.g_toplevel_ns),
         "executor_default_extended_md": sorted((ex.executor.__init__.__defaults__ or ({},))[-1] or {}),
         "executors": {k: {"job_option_blocks": len(e._job_option_blocks), "inject_blocks": len(e._inject_blocks), "extended_md": sorted(e._extended_md)} for k, e in executors.items()}}
    return d


def translate_inline(exe, query: str, out: Path, mk_out=True, shared: Optional[Dict[str, Any]] = None, share: bool = False) -> Dict[str, Any]:
    from ..xlate import exc_info, parse_query
    try:
        if mk_out:
            out.mkdir(parents=True, exist_ok=True)
        if shared is not None and (share or query in shared):
            a = shared.setdefault(query, parse_query(query))   # the same AST OBJECT as an earlier step
        else:
            a = parse_query(query)
        info = exe.write_cpp_files(exe.apply_ast_transformations(a), out)
        files = {f: normalise((out / f).read_text()) for f in info.all_filenames}
        return {"status": "ok", "files": files, "tree": info.result_rep.treename}
    except BaseException as e:  # noqa: B036
        ei = exc_info(e)
        return {"status": "raised", "type": ei["type"], "msg": norm_msg(ei["msg"])}


class _Injected(Exception):
    pass


def worker(args: Dict[str, Any]) -> Dict[str, Any]:
    import sys
    from ..xlate import executor_for
    import func_adl_xAOD.common.local_dataset  # noqa: F401  (DockerImageSpecification lives there) - needs python_on_whales stand-in
    from func_adl_xAOD.common.local_dataset import DockerImageSpecification

    out = Path(args["out"])
    executors: Dict[str, Any] = {}
    shared_asts: Dict[str, Any] = {}
    trace = []
    base_snap = None
    for i, st in enumerate(args["history"]):
        key = st["backend"]
        if not (st["reuse"] and key in executors):
            executors[key] = executor_for(st["backend"])
        exe = executors[key]
        if base_snap is None:
            base_snap = snapshot({})
        if st.get("extended_md"):
            exe.add_extended_md({"docker": DockerImageSpecification("base/image:0")})
        q = st["query"] if st.get("share_ast") else attach(st["query"], st["md"])
        tool_id = None
        if st["outcome"] in ("inject_exc", "interrupt") and hasattr(sys, "monitoring"):
            # source-free failpoint: raise at the k-th executed line of executor.py / meta_data.py
            mon = sys.monitoring
            tool_id = 3
            budget = [int(5 + st["exc_at"] * 120)]
            try:
                mon.use_tool_id(tool_id, "vf-failpoint")

                def on_line(code, line):
                    # failpoints sit in the translation work itself, never inside the recovery path (reset() and the
                    # thin wrappers that call it): a "failure" of three assignments is not a realistic fault
                    if code.co_filename.endswith(("common/executor.py", "common/meta_data.py")) and code.co_name not in ("reset", "apply_ast_transformations", "write_cpp_files"):
                        budget[0] -= 1
                        if budget[0] == 0:
                            if st["outcome"] == "interrupt":
                                raise KeyboardInterrupt(f"injected at {Path(code.co_filename).name}:{line}")
                            raise _Injected(f"injected at {Path(code.co_filename).name}:{line}")
                    return None
                mon.register_callback(tool_id, mon.events.LINE, on_line)
                mon.set_events(tool_id, mon.events.LINE)
            except Exception:
                tool_id = None
        r = translate_inline(exe, q, out / f"h{i}", mk_out=st["outcome"] != "no_outdir", shared=shared_asts, share=bool(st.get("share_ast")))
        if tool_id is not None:
            sys.monitoring.set_events(tool_id, 0)
            sys.monitoring.free_tool_id(tool_id)
        snap = snapshot(executors)
        if st.get("extended_md"):
            # The prototype was registered by the CALLER (this harness, as LocalDataset does it: on an executor made for that one
            # query). What it leaves on that executor is the caller's own doing, not something an earlier query declared: the
            # executor is not used again.
            executors.pop(key, None)
        leaked = {k: v for k, v in snap.items() if k != "executors" and v != base_snap.get(k)}
        exleak = {k: v for k, v in snap["executors"].items() if v["job_option_blocks"] or v["extended_md"]}
        trace.append({"step": i, "status": r["status"], "exc": r.get("type"), "global_state_after": leaked, "executor_state_after": exleak})
    results = {}
    for name, backend, pq, reuse in args["probes"]:
        if reuse and backend in executors:
            exe = executors[backend]
        else:
            exe = executor_for(backend)
        results[f"{name}|{backend}|{int(reuse)}"] = translate_inline(exe, pq, out / f"probe_{name}_{backend}_{int(reuse)}", shared=shared_asts)
    import shutil
    shutil.rmtree(out, ignore_errors=True)   # everything needed was read into the result: keep the scratch area bounded
    return {"trace": trace, "probes": results}


def run(ctx: Ctx) -> int:
    nh = ctx.pick(260, 1500)
    maxlen = ctx.pick(6, 25)
    plist = [(name, b, q, reuse) for b in BACKENDS for name, q in probes(b) for reuse in (False, True)]
    # baseline: every probe as the first query of a pristine process (one forked child per probe)
    base_reqs = [{"fn": "vf.props.c07:worker", "args": {"history": [], "probes": [p], "out": str(ctx.scratch / f"base{i}")}} for i, p in enumerate(plist)]
    pre = ["vf.props.c07"]
    import os
    os.environ["PYTHONPATH_EXTRA"] = ""
    base = run_batch(base_reqs, ctx.scratch, preimport=[], timeout=120)
    baseline: Dict[str, Any] = {}
    for p, r in zip(plist, base):
        if "probes" not in r:
            ctx.inconclusive.append(f"baseline probe failed: {str(r)[:300]}")
            return ctx.finish("exploration", RULE, ASSUME)
        baseline.update(r["probes"])
    if ctx.replay:
        rep = json.loads(Path(ctx.replay).read_text())["case"]
        hist = [rep["history"]]
    else:
        hist = [gen_history(ctx.rng("h", i), maxlen, inject=not ctx.quick) for i in range(nh)]
    # Every (history, probe) pair runs in a process of its own: a probe translation is itself a query that resets
    # registries and (for a new executor) reinstalls backend defaults, so probes sharing a process would mask or cause leaks.
    npick = ctx.pick(7, 14)
    reqs, owners = [], []
    for i, h in enumerate(hist):
        R = ctx.rng("probes", i)
        chosen = plist if ctx.replay else R.sample(plist, npick)
        if not ctx.replay:
            # half of the probes are aimed: the ones sensitive to what THIS history declared, on the backends it used, on the
            # executor it left behind as well as on a new one (a uniform draw from all probes rarely meets the one leak a history can cause)
            aimed = [p for p in plist if any(p[1] == st["backend"] and p[0] in SENSITIVE.get(k.split(":")[0], ()) for st in h for k in st["md_kinds"])]
            same_backend = [p for p in plist if any(p[1] == st["backend"] for st in h)]
            extra = R.sample(aimed, min(len(aimed), npick // 2)) + R.sample(same_backend, min(len(same_backend), 2))
            chosen = list(dict.fromkeys(extra + chosen))[:npick + 2]
        if ctx.replay:
            chosen = [p for p in plist if f"{p[0]}|{p[1]}|{int(p[3])}" == rep["probe"]]
        for j, p in enumerate(chosen):
            reqs.append({"fn": "vf.props.c07:worker", "args": {"history": h, "probes": [p], "out": str(ctx.scratch / f"hist{i}_{j}")}})
            owners.append(h)
    res = run_batch(reqs, ctx.scratch, timeout=300)
    for h, r in zip(owners, res):
        if "probes" not in r:
            ctx.count("harness_errors")
            ctx.notes.append(str(r)[:300])
            continue
        ctx.count("histories")
        ctx.count("history_steps", len(h))
        ctx.count("failing_steps", sum(1 for t in r["trace"] if t["status"] != "ok"))
        for key, got in r["probes"].items():
            ctx.count("evaluations")
            want = baseline[key]
            if got != want:
                diff = describe_diff(want, got)
                leak = [f"step {t['step']} ({h[t['step']]['outcome']}, md={h[t['step']]['md_kinds']}): {t['global_state_after'] or ''} {t['executor_state_after'] or ''}"
                        for t in r["trace"] if t["global_state_after"] or t["executor_state_after"]]
                known = classify_known(ctx, key, want, got, r["trace"], h)
                if known:
                    ctx.known_hits[known] += 1
                    continue
                ctx.violation({"history": h, "probe": key}, f"probe {key} after a history of {len(h)} steps differs from the pristine process: {diff} | registry monitor: {leak[:3]}")
            else:
                shape = tuple((s["outcome"], s["reuse"], tuple(sorted(s["md_kinds"]))) for s in h)
                ctx.seen((stable(shape), key), len(h) >= 2 or any(s["outcome"] != "ok" for s in h))
        ctx.sample({"history": [{k: s[k] for k in ("backend", "reuse", "md_kinds", "outcome")} for s in h][:6], "trace": r["trace"][:3]}, 3)
    for f in ctx.known_entries():
        if ctx.known_hits.get(f["key"]):
            ctx.known_finding(f["key"], f["mechanism"][:200])
    return ctx.finish("exploration", RULE, ASSUME)


def stable(x) -> str:
    import hashlib
    return hashlib.sha1(repr(x).encode()).hexdigest()[:10]


def describe_diff(want, got) -> str:
    if want["status"] != got["status"]:
        return f"pristine: {want['status']} {want.get('type', '')} {want.get('msg', '')[:120]!r}; after history: {got['status']} {got.get('type', '')} {got.get('msg', '')[:120]!r}"
    if want["status"] == "raised":
        return f"different error: pristine {want['type']}: {want['msg'][:150]!r} vs {got['type']}: {got['msg'][:150]!r}"
    for f in want["files"]:
        if want["files"][f] != got["files"].get(f):
            a, b = want["files"][f].splitlines(), (got["files"].get(f) or "").splitlines()
            for i, (x, y) in enumerate(zip(a, b)):
                if x != y:
                    return f"file {f} line {i}: pristine {x.strip()!r} vs {y.strip()!r}"
            return f"file {f}: length differs ({len(a)} vs {len(b)} lines)"
    return "?"


def classify_known(ctx: Ctx, key, want, got, trace, h) -> Optional[str]:
    return None
