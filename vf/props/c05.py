"""C05 - rows for an event depend on that event only (reference-free, metamorphic).

One compiled job is run over an event list L, over random permutations of L, over every
singleton [e] and over a split L1 ++ L2 as two jobs; the rows (and the outcome) attributed to
each event between its EVENT_BEGIN/EVENT_END markers must be identical in all runs."""
from __future__ import annotations

import json
import shutil
from pathlib import Path
from typing import Any, Dict, List, Tuple

from .. import diff, evgen, qgen, schema as sch
from ..core import Ctx, parallel_map
from . import common

RULE = ("qgen queries rich in per-event state (Count/Sum/Aggregate at several depths, First flags, vector and vector-of-vector columns, event-level Where, Range, Min/Max, "
        "opaque user C++ functions) x 12 events alternating large/empty collections with rejected events in between x {full list, 3 permutations, all singletons, a split into two jobs}; "
        "distinct = distinct (backend, operator multiset); non-trivial = at least 2 operators")
ASSUME = ["after an exception/FAILURE the driver starts a fresh job object (the real job would be dead): post-fault state is not part of the property",
          "no reference is used: values the Python model cannot compute (user C++) are covered too"]

USER_CPP = [
    {"metadata_type": "add_cpp_function", "name": "UserSq", "include_files": [], "arguments": ["x"], "code": ["auto result = x * x + 1.0;"], "return_type": "double"},
    {"metadata_type": "add_cpp_function", "name": "UserMix", "include_files": ["cmath"], "arguments": ["a", "b"],
     "code": ["double t = a - b;", "auto result = std::sqrt(t * t) + 0.5 * b;"], "return_type": "double"},
]


def with_user_cpp(R, q: Dict[str, Any]) -> Tuple[str, List[Dict[str, Any]]]:
    "wrap some numeric member calls into opaque user functions"
    import re
    text = q["query"]
    md = []
    hits = list(re.finditer(r"(\bv\d+)\.(pt|eta|phi|m)\(\)", text))
    if hits and R.random() < 0.5:
        h = R.choice(hits)
        if R.random() < 0.5:
            text = text[:h.start()] + f"UserSq({h.group(0)})" + text[h.end():]
            md.append(USER_CPP[0])
        else:
            text = text[:h.start()] + f"UserMix({h.group(0)}, {h.group(1)}.eta())" + text[h.end():]
            md.append(USER_CPP[1])
    return text, md


def event_key(ob) -> Any:
    if ob is None:
        return None
    rows = sorted(repr([(n, v) for n, v in r["cols"]]) for r in ob["rows"])
    st = ob["status"]
    # the text of an exception may carry addresses; the kind of ending is what matters
    return (st, tuple(rows) if st == "OK" else ())


def run(ctx: Ctx) -> int:
    eng = diff.Engine(ctx)
    opts = common.gen_options(ctx, minmax=True)
    nq = ctx.pick(36, 400)
    nev = 12
    all_cases: List[diff.Case] = []
    if ctx.replay:
        rep = json.loads(Path(ctx.replay).read_text())["case"]
        all_cases = [diff.Case(rep["backend"], rep["query"], rep["events"], [], tag={"features": {"replay": 2, "x": 1}})]
    else:
        for backend in sch.BACKENDS:
            s = sch.fixed(backend)
            i = 0
            while len([c for c in all_cases if c.backend == backend]) < nq and i < nq * 10:
                i += 1
                R = ctx.rng("c05", backend, i)
                g = qgen.QGen(s, R, **opts)
                try:
                    q = g.query(R.choice([2, 3, 3]))
                except qgen.CannotGenerate:
                    continue
                if not qgen.nontrivial(q["features"]):
                    continue
                text, umd = with_user_cpp(R, q)
                evs = evgen.gen_events(s, ctx.rng("c05ev", backend, i), nev)
                all_cases.append(diff.Case(backend, text, evs, diff.members_used(s, text) + umd, tag=q))
    # shapes where state is most exposed: a vector column filled BEFORE a partial operation of the same row can fail,
    # guards and faults of every kind (the C04 guard templates), rejected events between accepted ones
    if not ctx.replay:
        from .c04 import templates as guard_templates
        for backend in sch.BACKENDS:
            s = sch.fixed(backend)
            C = s["main"]["coll"]
            J = f"e.{C}('A')"
            extra = [f"ds.Select(lambda e: {{'pt': {J}.Select(lambda j: j.pt()), 'lead': {J}.Where(lambda j: j.pt() > 30.0).First().pt()}})",
                     f"ds.Select(lambda e: ({J}.Select(lambda j: j.trkPts().Select(lambda t: t * 2)), {J}.Select(lambda j: j.eta()), {J}[1].pt()))",
                     f"ds.Select(lambda e: ({J}.Select(lambda j: j.pt()), e.{C}('B').First().eta(), {J}.Count()))",
                     f"ds.Where(lambda e: {J}.Count() > 1).Select(lambda e: ({J}.Select(lambda j: j.nTrk()), {J}.Select(lambda j: j.trkPts().First())))",
                     f"ds.Select(lambda e: Range({J}.Count(), {J}.Count() + 3).Select(lambda i: i * 1))",
                     f"ds.Select(lambda e: (Range(e.{C}('B').Count(), e.{C}('B').Count() + 2).Select(lambda i: i + {J}.Count()), {J}.Count()))",
                     f"ds.SelectMany(lambda e: {J}).Select(lambda j: Range(j.nTrk(), j.nTrk() + 2).Sum())",
                     f"ds.Select(lambda e: {J}.Select(lambda j: Range(j.nTrk(), j.nTrk() + 3).Select(lambda i: i)))"]
            ts = extra + [t for i, t in enumerate(guard_templates(backend, s)) if not ctx.quick or (i + ctx.seed) % 3 == 0]
            for i, t in enumerate(ts):
                evs = evgen.gen_events(s, ctx.rng("c05tev", backend, i), nev)
                all_cases.append(diff.Case(backend, t, evs, diff.members_used(s, t), tag={"features": {"template": 2, f"t{i}": 1}}))
    # some events lack a product altogether (dropped by a skim): the job ends such an event loudly, and that too must not
    # depend on - or leak into - the neighbouring events
    if not ctx.replay:
        for ci, c in enumerate(all_cases):
            R = ctx.rng("c05absent", ci)
            if R.random() < 0.5:
                for ev in c.events:
                    r = R.random()
                    if r < 0.2:
                        ev["banks"] = [b for b in ev["banks"] if b["bank"] != "B"]
                        ctx.count("events_with_an_absent_product")
                    elif r < 0.3:
                        ev["banks"] = [b for b in ev["banks"] if b["bank"] != "A"]
                        ctx.count("events_with_an_absent_product")
    trs = eng.translate(all_cases)
    for c in all_cases:
        eng.model(c.backend)

    def work(item):
        case, tr = item
        if tr["status"] != "ok":
            shutil.rmtree(case._pkg, ignore_errors=True)
            return {"skip": "refused"}
        n = len(case.events)
        job_why = None
        if case.backend == "atlas":
            # the other half of the job: what the rendered job options ask EventLoop to do (an extra algorithm, an event
            # limit, a duplicate filter would make the rows of an event depend on its neighbours)
            from .. import jobopts
            from ..core import PY
            job_why = jobopts.judge_plain_job(jobopts.job_trace(Path(case._pkg) / "ATestRun_eljob.py", PY))
        R = ctx.rng("perm", case.query)
        lists = [list(range(n))]
        for _ in range(3):
            p = list(range(n))
            R.shuffle(p)
            lists.append(p)
        cut = R.randint(2, n - 2)
        lists += [list(range(cut)), list(range(cut, n))]
        lists += [[k] for k in range(n)]
        br = eng.build_and_run(case, event_lists=lists)
        if not br["build"]["ok"]:
            return {"skip": "build", "errors": br["build"]["errors"]}
        # attribute observations to original event indices
        per_event: Dict[int, List[Tuple[int, Any]]] = {k: [] for k in range(n)}
        for li, (idxs, run) in enumerate(zip(lists, br["runs"])):
            for pos, k in enumerate(idxs):
                per_event[k].append((li, event_key(run["events"].get(pos))))
        bad = None
        for k, obs in per_event.items():
            keys = {repr(o[1]) for o in obs}
            if len(keys) > 1:
                bad = {"event": k, "observations": [(("full" if li == 0 else f"perm{li}" if li < 4 else f"split{li - 3}" if li < 6 else "singleton"), str(o)[:300]) for li, o in obs][:8]}
                break
        nrows = sum(len(e["rows"]) for e in br["runs"][0]["events"].values())
        return {"bad": bad, "job_why": job_why, "job_traced": case.backend == "atlas", "runs": len(lists), "rows_full": nrows, "events_ok": sum(1 for e in br["runs"][0]["events"].values() if e["status"] == "OK"),
                "events_fault": sum(1 for e in br["runs"][0]["events"].values() if e["status"] != "OK")}
    results = parallel_map(work, list(zip(all_cases, trs)))
    for case, r in zip(all_cases, results):
        ctx.count("queries")
        if "skip" in r:
            ctx.count("skipped_" + r["skip"])
            continue
        ctx.count("evaluations", r["runs"])
        ctx.count("jobs_compiled")
        ctx.count("rows_in_full_runs", r["rows_full"])
        ctx.count("events_ok_in_full_runs", r["events_ok"])
        ctx.count("events_faulting_in_full_runs", r["events_fault"])
        if r.get("job_traced"):
            ctx.count("job_option_scripts_executed_against_recording_eventloop")
        if r.get("job_why"):
            ctx.violation(case.replay(), f"[{case.backend}] job options: {r['job_why']} :: {case.query[:200]}")
        elif r["bad"]:
            rep = case.replay()
            ctx.violation(rep, f"[{case.backend}] rows of event {r['bad']['event']} depend on the other events of the job: {r['bad']['observations']} :: {case.query[:300]}")
        else:
            ctx.seen(case.backend + "|" + qgen.signature(case.tag["features"]))
            ctx.sample({"backend": case.backend, "query": case.query[:240], "job_runs_compared": r["runs"], "rows_in_full_run": r["rows_full"]}, 4)
    if ctx.counters["jobs_compiled"] == 0:
        ctx.inconclusive.append("no job was compiled")
    return ctx.finish("exploration", RULE, ASSUME)
