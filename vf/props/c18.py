"""C18 - constants in a query denote the same value in the generated code.

Numeric / boolean literals are observed as output column values (value and column type class);
string literals as received by the model: bank names at the event store (hex-logged), attribute
names at getAttribute, arguments of an echoing injected function, tree and branch names at
booking.  Oracle: the received value equals the Python constant bit for bit / character for
character, or translation raised; a package that does not compile or delivers another value
is a mis-rendering."""
from __future__ import annotations

import json
import math
import struct
from pathlib import Path
from typing import Any, Dict, List, Optional, Tuple

from .. import diff, evgen, schema as sch, shrink
from ..core import Ctx
from . import common
from .c13 import type_class

RULE = ("equal-but-distinct constants side by side (0.0 / -0.0 / 0 / False, 1 / 1.0 / True, 2 / 2.0) in random orders; integers (0, +-1, int32/int64 limits and beyond), floats in every notation repr() produces (1e-07, 1e+22, 5e-324, max double, -0.0, inf, nan), booleans, strings over an alphabet with "
        "quotes, backslashes, newline/tab, %, braces, trigraph-like ??/, non-ASCII, empty, 1 KiB, in the positions: output value, bank name, attribute name, injected-function argument, "
        "tree name, branch name; distinct = distinct (backend, position, constant class); non-trivial = every case")
ASSUME = ["'rejected' = translation raises (any exception type)", "floats are compared bit for bit via the job's %.17g print"]

INTS = [0, 1, -1, 7, 2 ** 31 - 1, -(2 ** 31) + 1, 2 ** 31, -(2 ** 31), 2 ** 32, 2 ** 63 - 1, 2 ** 63, 10 ** 30, 123456789]
FLOATS = [0.5, 0.1, 1e-07, 1e+22, 5e-324, 1.7976931348623157e+308, 2.2250738585072014e-308, -0.0, 3.0, 1e16, 123456.789e3, 1.0000000000000002, float("inf"), float("-inf"), float("nan"), 0.30000000000000004]
STRINGS = ["plain", "with space", "", 'dq"uote', "sq'uote", "back\\slash", "trail\\", "nl\nline", "tab\there", "pct%d%s", "{braces}", "??/trigraph", "ünï©ode✓", "a" * 1024, "\\1\\g<0>", "\\n literal",
           "trailing ", " leading", "  both  ", "tab_at_end\t", "nl_at_end\n", " ", "semi;colon", "hash#", "/*c*/", "// c", "${x}", "\"", "\\\\", "\r", "x\0y"[:1] + "y", "emoji😀"]


def pylit(v) -> str:
    if isinstance(v, float):
        if math.isinf(v):
            return "1e999" if v > 0 else "-1e999"   # a float literal Python parses to inf
        if math.isnan(v):
            return "float('nan')"  # no literal denotes NaN: skipped below
    return repr(v)


def const_ast_query(body_expr: str) -> str:
    return body_expr


def bits(x: float) -> bytes:
    return struct.pack("<d", float(x))


def run(ctx: Ctx) -> int:
    eng = diff.Engine(ctx)
    if ctx.replay:
        return common.replay_differential(ctx, eng, ctx.replay)
    common.run_witnesses(ctx, eng)
    known = ctx.known_entries()
    cases: List[diff.Case] = []
    backends = sch.BACKENDS if not ctx.quick else ["atlas", sch.BACKENDS[1 + ctx.seed % 2]]
    for backend in backends:
        s = sch.fixed(backend)
        C = s["main"]["coll"]
        evs0 = evgen.gen_events(s, ctx.rng("ev", backend), 3)
        # ---- numeric / boolean constants as column values (one per job so that a refusal is attributable) and in batches
        nums: List[Tuple[str, Any]] = [("int", v) for v in INTS] + [("float", v) for v in FLOATS] + [("bool", True), ("bool", False)]
        for kind, v in nums:
            for pos in ("event_column", "object_arith", "comparison"):
                if pos == "event_column":
                    q = f"ds.Select(lambda e: ({pylit(v)}, e.{C}('A').Count()))"
                elif pos == "object_arith":
                    if kind == "bool":
                        continue
                    q = f"ds.SelectMany(lambda e: e.{C}('A')).Select(lambda j: (j.pt() * 0 + {pylit(v)}, j.pt()))"
                else:
                    if kind == "bool":
                        continue
                    q = f"ds.SelectMany(lambda e: e.{C}('A')).Select(lambda j: (j.pt() > {pylit(v)}, j.pt() <= {pylit(v)}))"
                if "float(" in q:
                    # inf / nan cannot be written as a Python literal: put the constant node into the AST directly
                    continue
                c = diff.Case(backend, q, evs0, diff.members_used(s, q), tag={"pos": pos, "kind": kind, "value": repr(v)})
                c.allow_nonfinite = True  # type: ignore
                cases.append(c)
        # ---- constants that compare EQUAL in Python but denote different values / kinds, side by side in one query and in
        # every order (a rendering that goes through an equality-keyed table or cache confuses them)
        EQ = [("0.0", 0.0), ("NEGZERO", -0.0), ("1", 1), ("True", True), ("1.0", 1.0), ("0", 0), ("False", False), ("2", 2), ("2.0", 2.0)]
        for k in range(4 if ctx.quick else 24):
            R = ctx.rng("c18eq", backend, k)
            sel = R.sample(EQ, R.choice([4, 6, 9]))
            q = f"ds.Select(lambda e: ({', '.join(t for t, _ in sel)}, e.{C}('A').Count()))"
            c = diff.Case(backend, q, evs0, diff.members_used(s, q), tag={"pos": "equal_constants", "kind": "mixed", "value": repr([t for t, _ in sel]), "values": [v for _, v in sel]})
            cases.append(c)
            q = f"ds.SelectMany(lambda e: e.{C}('A')).Select(lambda j: ({', '.join('j.pt() * 0 + ' + t for t, v in sel if not isinstance(v, bool))}, j.pt()))"
            cases.append(diff.Case(backend, q, evs0, diff.members_used(s, q), tag={"pos": "equal_constants_arith", "kind": "mixed", "value": repr([t for t, _ in sel])}))
        # ---- negative constants that arrive as constant nodes, in the operator positions where the sign matters
        for k, (txt, q) in enumerate([
                ("NEGONE", f"ds.SelectMany(lambda e: e.{C}('A')).Select(lambda j: (j.pt() - NEGONE, j.pt() + NEGONE, j.pt() * NEGHALF, j.pt() / NEGHALF, NEGONE - j.pt(), -NEGONE, NEGBIG))"),
                ("NEGHALF", f"ds.SelectMany(lambda e: e.{C}('A')).Select(lambda j: (j.pt() > NEGHALF, j.pt() - NEGHALF - NEGHALF, 2 ** NEGONE, (j.pt() if j.pt() > NEGONE else NEGHALF)))"),
                ("NEGHALF", f"ds.SelectMany(lambda e: e.{C}('A')).Select(lambda j: (DeltaR(j.eta(), j.phi(), NEGHALF, NEGHALF), DeltaR(NEGHALF, NEGONE, j.eta(), j.phi()), abs(NEGHALF) + sqrt(abs(NEGONE))))"),
                ("NEGONE", f"ds.Select(lambda e: (e.{C}('A').Select(lambda j: j.pt() - NEGONE), e.{C}('A').Where(lambda j: j.pt() > NEGHALF).Count(), NEGONE))")]):
            cases.append(diff.Case(backend, q, evs0, diff.members_used(s, q), tag={"pos": "negative_constant_node", "kind": "mixed", "value": txt + f"#{k}"}))
        # ---- numeric constants as the arms of a conditional (both arms literals: whole-valued floats, large floats, mixed kinds)
        for k, (a, b) in enumerate([("1.0", "0.0"), ("1e10", "0.0"), ("2.0", "3"), ("1", "0"), ("0.5", "2"), ("3000000000.0", "1.0"), ("-1.0", "1.0"), ("1e-07", "0.0"), ("True", "False")]):
            q = f"ds.SelectMany(lambda e: e.{C}('A')).Select(lambda j: (({a} if j.pt() > 30.0 else {b}), ({b} if j.pt() > 30.0 else {a}) + 0, j.pt()))"
            c = diff.Case(backend, q, evs0, diff.members_used(s, q), tag={"pos": "conditional_arms", "kind": "mixed", "value": f"{a}|{b}"})
            cases.append(c)
        # ---- strings spelt as expressions of literals: f-strings (conversions, format specifications, the = form) and + of literals.
        # Either the translator refuses them or the string it renders is the one Python denotes.
        for k, expr in enumerate(['f"A{1}"', 'f"AntiKt{4}{\'EMTopo\'!r}Jets"', 'f"{\'x\'!s:>3}y"', 'f"v{2.5:.1f}"', 'f"{\'A\'!a}"', 'f"{3=}"', '"A" + "B"', 'f"{{braces}}{1}"', 'f"plain"']):
            sv = eval(expr)
            evs = [dict(banks=[dict(b, bank=sv) if (b["coll"] == C and b["bank"] == "A") else b for b in ev["banks"]]) for ev in evs0]
            q = f"ds.Select(lambda e: e.{C}({expr}).Count())"
            cases.append(diff.Case(backend, q, evs, diff.members_used(s, q), tag={"pos": "bank_name", "kind": "str", "value": sv, "spelt": expr}))
        # ---- strings
        strs = STRINGS if not ctx.quick else STRINGS
        for sv in strs:
            lit = repr(sv)
            # bank name: the event store must be asked for exactly this bank (the events carry it)
            evs = [dict(banks=[dict(b, bank=sv) if (b["coll"] == C and b["bank"] == "A") else b for b in ev["banks"]]) for ev in evs0]
            q = f"ds.Select(lambda e: e.{C}({lit}).Count())"
            cases.append(diff.Case(backend, q, evs, diff.members_used(s, q), tag={"pos": "bank_name", "kind": "str", "value": sv}))
            # the same bank name in a query that ends in First(): its text is quoted inside the job's error message
            q = f"ds.Where(lambda e: e.{C}({lit}).Count() > 0).Select(lambda e: e.{C}({lit}).Select(lambda j: j.pt()).First())"
            cases.append(diff.Case(backend, q, evs, diff.members_used(s, q), tag={"pos": "bank_name_under_first", "kind": "str", "value": sv}))
            # echoing injected function
            md = [{"metadata_type": "add_cpp_function", "name": "EchoStr", "include_files": [], "arguments": ["s"], "code": ["auto result = mon_echo_str(s);"], "return_type": "int"}]
            q = f"ds.Select(lambda e: EchoStr({lit}))"
            c = diff.Case(backend, q, evs0, md, tag={"pos": "function_argument", "kind": "str", "value": sv}, extra_globals={"EchoStr": lambda x: len(x.encode("utf-8"))})
            cases.append(c)
            # tree name and branch name
            q = f"ResultTTree(ds.Select(lambda e: (e.{C}('A').Count(), e.{C}('B').Count())), [{lit}, 'other'], {lit}, 'f.root')"
            cases.append(diff.Case(backend, q, evs0, [], tag={"pos": "tree_and_branch_name", "kind": "str", "value": sv}))
            q = f"ds.Select(lambda e: {{{lit}: e.{C}('A').Count(), 'k2': 1}})"
            cases.append(diff.Case(backend, q, evs0, [], tag={"pos": "dict_key", "kind": "str", "value": sv}))
            if backend == "atlas":
                evs_a = json.loads(json.dumps(evs0))
                for ev in evs_a:
                    for b in ev["banks"]:
                        for o in b["objs"]:
                            if o.get("__cls") == "xAOD::Jet":
                                o["attr:" + sv] = 1.25
                q = f"ds.SelectMany(lambda e: e.Jets('A')).Select(lambda j: j.getAttributeFloat({lit}))"
                cases.append(diff.Case(backend, q, evs_a, [], tag={"pos": "attribute_name", "kind": "str", "value": sv}))
    results: List[Tuple[diff.Case, Dict[str, Any]]] = []
    diff.differential(ctx, eng, cases, lambda c, r: results.append((c, r)))
    for c, r in results:
        t = c.tag
        ctx.count("evaluations")
        kind = shrink.failure_kind(r)
        if kind in ("harness", "timeout"):
            ctx.count("harness_errors")
            ctx.notes.append((str(r.get("harness") or r.get("verdict", {}).get("harness")) + " :: " + c.query[:80])[:260])
            continue
        cls = const_class(t)
        if kind is not None and kind.startswith("refused"):
            ctx.count("rejected")
            ctx.seen((c.backend, t["pos"], cls, "rejected"))
            continue
        why = None
        if kind is not None:
            why = f"{kind}: {common.describe(r)}"
        else:
            why = check_received(c, r)
        if why:
            hit = next((f for f in known if f.get("const_classes") and cls in f["const_classes"] and (not f.get("positions") or t["pos"] in f["positions"])), None)
            if hit:
                ctx.known_hits[hit["key"]] += 1
                ctx.known_finding(hit["key"], hit["mechanism"][:170] + f" [witness: {c.backend} {t['pos']} {t['value']!r:.40} -> {why[:100]}]")
                continue
            ctx.violation(c.replay(), f"[{c.backend}] constant {t['value']!r:.80} ({cls}) at position {t['pos']} is mis-rendered: {why} :: {c.query[:200]}")
        else:
            ctx.count("received_exactly")
            ctx.seen((c.backend, t["pos"], cls, "exact"))
            if t["kind"] == "str" and len(t["value"]) < 30:
                ctx.sample({"backend": c.backend, "position": t["pos"], "constant": t["value"], "verdict": "received character for character"}, 5)
    return ctx.finish("exploration", RULE, ASSUME)


def const_class(t) -> str:
    v = t["value"]
    if t["kind"] == "str":
        if v == "":
            return "str_empty"
        if len(v) > 500:
            return "str_long"
        for ch, n in (('"', "str_dquote"), ("\\", "str_backslash"), ("\n", "str_newline"), ("\r", "str_cr"), ("\t", "str_tab"), ("??", "str_trigraph")):
            if ch in v:
                return n
        if any(ord(x) > 127 for x in v):
            return "str_non_ascii"
        return "str_plain_or_punct"
    if t["kind"] == "int":
        iv = int(v)
        return "int32" if -(2 ** 31) < iv < 2 ** 31 else "int_wide"
    if t["kind"] == "mixed":
        return "equal_but_distinct_constants"
    if t["kind"] == "float":
        f = float(v)
        if math.isinf(f) or math.isnan(f):
            return "float_nonfinite"
        return "float"
    return "bool"


def check_received(c: diff.Case, r: Dict[str, Any]) -> Optional[str]:
    t = c.tag
    run = r["run"]
    if t["pos"] == "equal_constants":
        want = t["values"]
        for ev in run["events"].values():
            for row in ev["rows"]:
                for (name, got), v in zip(row["cols"], want):
                    if isinstance(v, bool):
                        ok = got is v
                    elif isinstance(v, int):
                        ok = isinstance(got, int) and not isinstance(got, bool) and got == v
                    else:
                        ok = isinstance(got, (int, float)) and not isinstance(got, bool) and bits(got) == bits(v)
                    if not ok:
                        return f"constant {v!r} of column {name} arrived as {got!r}"
        for br, v in zip(run["book"][0]["branches"], want):
            tc = type_class(br["type"])
            w = "bool" if isinstance(v, bool) else "int" if isinstance(v, int) else "float"
            if tc != w:
                return f"constant {v!r} of kind {w} booked as {br['type']}"
        return None
    if t["kind"] == "mixed":
        return None  # values compared by the differential verdict
    if t["kind"] != "str":
        # values already compared by the differential verdict to 1e-9; require bit-exactness and the type class here
        v = eval(t["value"]) if t["value"] not in ("inf", "-inf", "nan") else float(t["value"])
        if t["pos"] != "event_column":
            return None
        for ev in run["events"].values():
            for row in ev["rows"]:
                got = row["cols"][0][1]
                if isinstance(v, bool):
                    if got is not v:
                        return f"job wrote {got!r}"
                elif isinstance(v, int):
                    if not (isinstance(got, int) and not isinstance(got, bool) and got == v):
                        return f"integer constant arrived as {got!r}"
                else:
                    if bits(got) != bits(v) and not (math.isnan(v) and math.isnan(float(got))):
                        return f"float constant {v!r} arrived as {got!r} (bits differ)"
        br = run["book"][0]["branches"][0]
        tc = type_class(br["type"])
        want = "bool" if isinstance(v, bool) else "int" if isinstance(v, int) else "float"
        if tc != want:
            return f"constant of kind {want} booked as {br['type']}"
        return None
    sv = t["value"]
    if t["pos"] in ("bank_name", "bank_name_under_first"):
        recs = [x for ev in run["events"].values() for x in ev["retrieves"]]
        if not recs:
            return "no retrieve was observed"
        bad = [x for x in recs if x["bank"] != sv]
        if bad:
            return f"store was asked for bank {bad[0]['bank']!r}"
        return None
    if t["pos"] == "function_argument":
        recs = [f for ev in run["events"].values() for f in ev["flags"] if f.startswith("ECHO kind=str")]
        if not recs:
            return "the echo function was never called"
        got = {bytes.fromhex(f.split("value=")[1]).decode("utf-8", "replace") if f.split("value=")[1] != "-" else "" for f in recs}
        if got != {sv}:
            return f"function received {sorted(got)!r:.120}"
        return None
    if t["pos"] == "attribute_name":
        recs = [f for ev in run["events"].values() for f in ev["flags"] if f.startswith("GETATTR")]
        if not recs:
            return None if not any(ev["rows"] for ev in run["events"].values()) else "getAttribute was never observed"
        got = {bytes.fromhex(f.split("name=")[1]).decode("utf-8", "replace") if f.split("name=")[1] != "-" else "" for f in recs}
        if got != {sv}:
            return f"getAttribute received {sorted(got)!r:.120}"
        return None
    if t["pos"] == "tree_and_branch_name":
        b = run["book"][0]
        if b["trees"] != [sv]:
            return f"tree booked as {b['trees']!r:.120}"
        if [x["name"] for x in b["branches"]] != [sv, "other"]:
            return f"branches booked as {[x['name'] for x in b['branches']]!r:.120}"
        return None
    if t["pos"] == "dict_key":
        b = run["book"][0]
        if [x["name"] for x in b["branches"]] != [sv, "k2"]:
            return f"branches booked as {[x['name'] for x in b['branches']]!r:.120}"
        return None
    return None
