"""C09 - unsupported or malformed queries are refused, never half-translated.

Valid generated sub-expressions are combined with a catalogue of unsupported constructs
("grafts") placed at LIVE positions of otherwise valid queries (top level, nested lambdas,
Where / Aggregate bodies, behind chains the normaliser rewrites, dict/tuple columns).
Oracle: translation must raise.  If a package is returned it is compiled against the model
EDM so that the replay shows what was silently dropped."""
from __future__ import annotations

import json
from pathlib import Path
from typing import Any, Callable, Dict, List, Optional, Tuple

from .. import cxx, diff, findings, qgen, schema as sch
from ..core import Ctx
from ..xlate import run_batch
from . import common

RULE = ("graft catalogue (unsupported binary/unary operators, comparison chains and in/is, Aggregate arities, slices, arithmetic/comparison/negation on sequences, raw objects "
        "as columns, value used as a sequence, wrong label count, getAttribute, malformed/unknown metadata, keyword arguments) x live positions (12 position templates) x random valid "
        "filler expressions x 3 backends; distinct = distinct (graft, position, backend); non-trivial = every case (each holds exactly one unsupported construct)")
ASSUME = ["any exception type counts as refusal; a watchdog firing is inconclusive", "positions are live by construction (the value flows into an output column or a filter)"]


def fillers(g: qgen.QGen, env, d=1):
    X = g.num(env, d, "float")[0]
    Xi = g.num(env, 0, "int")[0]
    return X, Xi


def grafts(backend: str, s) -> Dict[str, List[Tuple[str, Callable]]]:
    """name -> list of (kind, builder(g, env, J, E)) where kind in num|bool|col; J = an object variable in scope (or None),
    E = an event variable in scope (or None)"""
    coll = s["main"]["coll"]
    G: List[Tuple[str, str, Callable]] = []

    def add(name, kind, fn):
        G.append((name, kind, fn))
    for op in ("//", "&", "|", "^", "<<", ">>", "@"):
        add(f"binop{op}", "num", lambda g, env, J, E, op=op: f"({fillers(g, env)[1 if op not in ('//', '@') else 0]} {op} 2)")
    add("unary~", "num", lambda g, env, J, E: f"(~{fillers(g, env)[1]})")
    add("cmp_chain", "bool", lambda g, env, J, E: f"(1 < {fillers(g, env)[0]} < 50)")
    add("cmp_chain3", "bool", lambda g, env, J, E: f"(0 <= {fillers(g, env)[1]} <= 5 != 3)")
    add("cmp_in", "bool", lambda g, env, J, E: f"({fillers(g, env)[1]} in (1, 2))")
    add("cmp_not_in", "bool", lambda g, env, J, E: f"({fillers(g, env)[1]} not in [1, 2])")
    add("cmp_is", "bool", lambda g, env, J, E: f"({fillers(g, env)[0]} is None)")
    add("cmp_is_not", "bool", lambda g, env, J, E: f"({fillers(g, env)[0]} is not None)")

    def numseq(g, env, J, E):
        return f"{J}.trkPts()" if J else f"{E}.{coll}('A').Select(lambda q: q.pt())"
    add("agg_1_lambda", "num", lambda g, env, J, E: f"{numseq(g, env, J, E)}.Aggregate(lambda a, x: a + x)")
    add("agg_2_lambdas", "num", lambda g, env, J, E: f"{numseq(g, env, J, E)}.Aggregate(lambda x: x, lambda a, x: a + x)")
    add("agg_4_args", "num", lambda g, env, J, E: f"{numseq(g, env, J, E)}.Aggregate(0, lambda a, x: a + x, 1, 2)")
    add("agg_no_args", "num", lambda g, env, J, E: f"{numseq(g, env, J, E)}.Aggregate()")
    add("slice", "num", lambda g, env, J, E: f"{numseq(g, env, J, E)}[0:2].Count()")
    add("slice_step", "num", lambda g, env, J, E: f"{numseq(g, env, J, E)}[::2].Count()")
    add("slice_col", "col", lambda g, env, J, E: f"{numseq(g, env, J, E)}[1:]")
    add("seq_plus", "num", lambda g, env, J, E: f"({numseq(g, env, J, E)} + 1).Count()")
    add("seq_times_col", "col", lambda g, env, J, E: f"({numseq(g, env, J, E)} * 2)")
    add("seq_neg_col", "col", lambda g, env, J, E: f"(-{numseq(g, env, J, E)})")
    add("seq_compare", "bool", lambda g, env, J, E: f"({numseq(g, env, J, E)} > 1)")
    add("seq_not", "bool", lambda g, env, J, E: f"(not {numseq(g, env, J, E)})")
    add("seq_plus_seq", "col", lambda g, env, J, E: f"({numseq(g, env, J, E)} + {numseq(g, env, J, E)})")
    add("value_select", "num", lambda g, env, J, E: f"{fillers(g, env)[0]}.Select(lambda q: q + 1).Count()")
    add("value_count", "num", lambda g, env, J, E: f"({fillers(g, env)[0]}).Count()")
    add("value_first", "num", lambda g, env, J, E: f"({fillers(g, env)[0]}).First()")
    add("value_where_col", "col", lambda g, env, J, E: f"({fillers(g, env)[0]}).Where(lambda q: q > 1)")

    def obj(g, env, J, E):
        return J if J else f"{E}.{coll}('A').First()"
    add("raw_object_col", "col", lambda g, env, J, E: obj(g, env, J, E))
    add("raw_object_in_tuple", "col", lambda g, env, J, E: f"({obj(g, env, J, E)}, 1)[0]")
    add("raw_object_seq_col", "col", lambda g, env, J, E: (f"{J}.tracks()" if J else f"{E}.{coll}('A')"))
    add("raw_object_where_col", "col", lambda g, env, J, E: (f"{J}.tracks().Where(lambda q: q.pt() > 1)" if J else f"{E}.{coll}('A').Where(lambda q: q.pt() > 1)"))
    add("raw_object_arith", "num", lambda g, env, J, E: f"({obj(g, env, J, E)} + 1)")
    add("raw_object_compare", "bool", lambda g, env, J, E: f"({obj(g, env, J, E)} > 1)")
    if backend == "atlas":
        add("getAttribute", "num", lambda g, env, J, E: f"{obj(g, env, J, E)}.getAttribute('emf')")
        # ... on receivers that are expressions when the plug-ins are resolved (an indexed collection, a member call's result)
        add("getAttribute_on_indexed_receiver", "num", lambda g, env, J, E: (f"{E}.{coll}('A')[0].getAttribute('emf')" if E else f"{J}.tracks()[0].getAttribute('emf')"))
        add("getAttribute_on_member_result", "num", lambda g, env, J, E: (f"{E}.{coll}('A').First().other().getAttribute('emf')" if E else f"{J}.other().getAttribute('emf')"))
        add("getAttributeFloat_2args_on_indexed_receiver", "num", lambda g, env, J, E: (f"{E}.{coll}('A')[0].getAttributeFloat('emf', 'x')" if E else f"{J}.tracks()[0].getAttributeFloat('emf', 'x')"))
        add("getAttributeFloat_2args", "num", lambda g, env, J, E: f"{obj(g, env, J, E)}.getAttributeFloat('emf', 'x')")
        add("getAttributeFloat_func_style", "num", lambda g, env, J, E: f"getAttributeFloat({obj(g, env, J, E)}, 'emf')")
    add("kw_method", "num", lambda g, env, J, E: f"{obj(g, env, J, E)}.pt(units=1000)")
    add("kw_method_args", "num", lambda g, env, J, E: f"{obj(g, env, J, E)}.scaled(2.0, extra=1)")
    add("kw_math", "num", lambda g, env, J, E: f"sin(x={fillers(g, env)[0]})")
    add("kw_math_extra", "num", lambda g, env, J, E: f"sqrt(abs({fillers(g, env)[0]}), precision=2)")
    add("kw_injected", "num", lambda g, env, J, E: f"DeltaR({obj(g, env, J, E)}.eta(), {obj(g, env, J, E)}.phi(), 1.0, phi2=0.5)")
    add("kw_collection", "num", lambda g, env, J, E: (f"{E}.{coll}(bank='A').Count()" if E else f"{J}.pt(units=1)"))
    add("kw_linq", "num", lambda g, env, J, E: f"{numseq(g, env, J, E)}.Select(lambda q: q * 2, name='x').Count()")
    add("deltaR_3_args", "num", lambda g, env, J, E: f"DeltaR({obj(g, env, J, E)}.eta(), {obj(g, env, J, E)}.phi(), 1.0)")
    add("collection_2_args", "num", lambda g, env, J, E: (f"{E}.{coll}('A', 'B').Count()" if E else f"DeltaR(1.0)"))
    add("collection_int_arg", "num", lambda g, env, J, E: (f"{E}.{coll}(22).Count()" if E else f"DeltaR(1.0, 2.0)"))
    # one string plus further arguments: what becomes of 30000.0? nothing in the generated code can express it
    add("collection_str_plus_number", "num", lambda g, env, J, E: (f"{E}.{coll}('A', 30000.0).Count()" if E else f"DeltaR(1.0, 2.0, 3.0)"))
    add("collection_str_plus_bool", "num", lambda g, env, J, E: (f"{E}.{coll}('A', True).Count()" if E else f"DeltaR(1.0, 2.0, 3.0, 4.0, 5.0)"))
    add("collection_number_then_str", "num", lambda g, env, J, E: (f"{E}.{coll}(0, 'A').Count()" if E else f"DeltaR()"))
    add("math_dot", "num", lambda g, env, J, E: f"math.sin({fillers(g, env)[0]})")
    add("unknown_function", "num", lambda g, env, J, E: f"no_such_function({fillers(g, env)[0]})")
    add("lambda_as_value", "num", lambda g, env, J, E: f"(lambda q: q)")
    add("string_arith", "num", lambda g, env, J, E: f"({fillers(g, env)[0]} + 'a')")
    add("complex_const", "num", lambda g, env, J, E: f"({fillers(g, env)[0]} * 2j)")
    add("none_const", "col", lambda g, env, J, E: "None")
    add("dict_unpack", "col", lambda g, env, J, E: "{**{'a': 1}}['a']")
    out: Dict[str, List[Tuple[str, Callable]]] = {}
    for name, kind, fn in G:
        out[name] = [(kind, fn)]
    return out


def as_kind(expr: str, have: str, want: str) -> str:
    "adapt a graft expression of kind `have` to a position needing `want` (keeping it live)"
    if have == want:
        return expr
    if want == "col":
        return expr
    if have == "bool" and want == "num":
        return f"(1.0 if {expr} else 0.0)"
    if have == "num" and want == "bool":
        return f"({expr} > 0)"
    if have == "col" and want == "num":
        return f"(({expr}, 1.0)[0])" if False else expr  # col grafts are only placed at column positions
    return expr


def positions(backend: str, s) -> List[Tuple[str, str, Callable]]:
    """(name, wanted kind, builder(graft_for(env, J, E)) -> query text)"""
    c = s["main"]["coll"]
    P: List[Tuple[str, str, Callable]] = []
    ev = [("e", qgen.EVT)]
    P.append(("event_column", "col", lambda gr, g: f"ds.Select(lambda e: {gr(ev, None, 'e')})"))
    P.append(("event_tuple_column", "col", lambda gr, g: f"ds.Select(lambda e: ({g.num(ev, 1)[0]}, {gr(ev, None, 'e')}))"))
    P.append(("event_dict_column", "col", lambda gr, g: f"ds.Select(lambda e: {{'a': {g.num(ev, 1)[0]}, 'b': {gr(ev, None, 'e')}}})"))
    P.append(("event_where", "bool", lambda gr, g: f"ds.Where(lambda e: {gr(ev, None, 'e')}).Select(lambda e: e.{c}('A').Count())"))
    jv = [("j", qgen.T_obj(s["collections"][c]["element"]))]
    P.append(("object_rows_column", "col", lambda gr, g: f"ds.SelectMany(lambda e: e.{c}('A')).Select(lambda j: {gr(jv, 'j', None)})"))
    P.append(("object_rows_where", "bool", lambda gr, g: f"ds.SelectMany(lambda e: e.{c}('A')).Where(lambda j: {gr(jv, 'j', None)}).Select(lambda j: j.pt())"))
    P.append(("inner_select", "num", lambda gr, g: f"ds.Select(lambda e: e.{c}('A').Select(lambda j: {gr(jv, 'j', None)}))"))
    P.append(("inner_where", "bool", lambda gr, g: f"ds.Select(lambda e: e.{c}('A').Where(lambda j: {gr(jv, 'j', None)}).Select(lambda j: j.pt()))"))
    P.append(("inner_where_count", "bool", lambda gr, g: f"ds.Select(lambda e: e.{c}('A').Where(lambda j: {gr(jv, 'j', None)}).Count())"))
    P.append(("aggregate_body", "num", lambda gr, g: f"ds.Select(lambda e: e.{c}('A').Aggregate(0.0, lambda acc, j: acc + {gr(jv, 'j', None)}))"))
    P.append(("under_sum", "num", lambda gr, g: f"ds.Select(lambda e: e.{c}('A').Select(lambda j: {gr(jv, 'j', None)}).Sum())"))
    P.append(("under_first", "num", lambda gr, g: f"ds.Select(lambda e: e.{c}('A').Select(lambda j: {gr(jv, 'j', None)}).First())"))
    P.append(("behind_select_chain", "num", lambda gr, g: f"ds.Select(lambda e: e.{c}('A')).Select(lambda js: js.Select(lambda j: {gr(jv, 'j', None)}))"))
    P.append(("behind_tuple_chain", "num", lambda gr, g: f"ds.Select(lambda e: (e.{c}('A'), e.{c}('B'))).Select(lambda t: t[1].Select(lambda j: {gr(jv, 'j', None)}))"))
    P.append(("behind_dict_chain", "num", lambda gr, g: f"ds.Select(lambda e: {{'js': e.{c}('A')}}).Select(lambda d: d.js.Select(lambda j: 1.0 + {gr(jv, 'j', None)}))"))
    P.append(("ifexp_test", "bool", lambda gr, g: f"ds.Select(lambda e: e.{c}('A').Select(lambda j: 1.0 if {gr(jv, 'j', None)} else 2.0))"))
    P.append(("ifexp_arm", "num", lambda gr, g: f"ds.Select(lambda e: e.{c}('A').Select(lambda j: {gr(jv, 'j', None)} if j.pt() > 1.0 else 2.0))"))
    P.append(("and_right", "bool", lambda gr, g: f"ds.Select(lambda e: e.{c}('A').Where(lambda j: j.pt() > 0.0 and {gr(jv, 'j', None)}).Count())"))
    P.append(("arith_operand", "num", lambda gr, g: f"ds.SelectMany(lambda e: e.{c}('A')).Select(lambda j: (j.pt() * 2 + {gr(jv, 'j', None)}) / 3.0)"))
    P.append(("math_argument", "num", lambda gr, g: f"ds.SelectMany(lambda e: e.{c}('A')).Select(lambda j: sqrt(abs({gr(jv, 'j', None)})))"))
    P.append(("range_bound", "num", lambda gr, g: f"ds.Select(lambda e: Range(0, {gr(ev, None, 'e')}).Count())"))
    P.append(("function_style", "num", lambda gr, g: f"Select(ds, lambda e: Select(e.{c}('A'), lambda j: {gr(jv, 'j', None)}))"))
    return P


BAD_METADATA = [
    ("md_unknown_type", {"metadata_type": "no_such_metadata_type", "x": 1}),
    ("md_typeless", {"name": "x", "script": []}),
    ("md_method_no_return", {"metadata_type": "add_method_type_info", "type_string": "T", "method_name": "m"}),
    ("md_method_no_type_string", {"metadata_type": "add_method_type_info", "method_name": "m", "return_type": "int"}),
    ("md_inject_unknown_field", {"metadata_type": "inject_code", "name": "b", "body_include": ["x.h"]}),
    ("md_job_script_no_script", {"metadata_type": "add_job_script", "name": "b"}),
    ("md_job_script_missing_dep", {"metadata_type": "add_job_script", "name": "b", "script": ["x"], "depends_on": ["nope"]}),
    ("md_cpp_function_no_code", {"metadata_type": "add_cpp_function", "name": "f", "include_files": [], "arguments": ["a"], "return_type": "double"}),
    ("md_enum_no_values", {"metadata_type": "define_enum", "namespace": "N", "name": "E"}),
    ("md_collection_extra_key", None), ("md_collection_key_of_other_backend", None), ("md_collection_missing_key", None), ("md_collection_element_inconsistent", None), ("md_collection_other_backend", None), ("md_collection_sibling_cms_backend", None),
]


def collection_md(backend: str) -> Dict[str, Any]:
    if backend == "atlas":
        return {"metadata_type": "add_atlas_event_collection_info", "name": "MyColl", "include_files": ["xAODJet/JetContainer.h"], "container_type": "xAOD::JetContainer",
                "element_type": "xAOD::Jet", "contains_collection": True}
    t = "aod" if backend == "cms_aod" else "miniaod"
    return {"metadata_type": f"add_cms_{t}_event_collection_info", "name": "MyColl", "include_files": ["DataFormats/MuonReco/interface/Muon.h"],
            "container_type": "reco::MuonCollection", "element_type": "reco::Muon", "contains_collection": True, "element_pointer": False}


def metadata_cases(backend: str, s) -> List[Tuple[str, str]]:
    c = s["main"]["coll"]
    out = []
    for name, md in BAD_METADATA:
        q = f"Select(MetaData(ds, {{md}}), lambda e: e.{c}('A').Count())"
        if md is None:
            base = collection_md(backend)
            q = f"Select(MetaData(ds, {{md}}), lambda e: e.MyColl('X').Count())"
            if name == "md_collection_extra_key":
                md = dict(base, bogus_key=1)
            elif name == "md_collection_key_of_other_backend":
                md = dict(base, **({"element_pointer": False} if backend == "atlas" else {"link_libraries": ["xAODJet"]}))
            elif name == "md_collection_missing_key":
                md = {k: v for k, v in base.items() if k != "container_type"}
            elif name == "md_collection_element_inconsistent":
                md = {k: v for k, v in base.items() if k != "element_type"}
            elif name == "md_collection_sibling_cms_backend":
                if backend == "atlas":
                    continue
                md = collection_md("cms_miniaod" if backend == "cms_aod" else "cms_aod")
            else:
                other = "cms_aod" if backend == "atlas" else "atlas"
                md = collection_md(other)
        out.append((name, q.replace("{md}", repr(md))))
    if backend == "atlas":
        js = lambda script, dep: {"metadata_type": "add_job_script", "name": "blk", "script": script, "depends_on": dep}  # noqa: E731
        for nm, a, b2 in (("md_job_script_conflicting_duplicate", js(["line_a"], []), js(["line_b"], [])),
                          ("md_job_script_duplicate_missing_dep", js(["line_a"], []), js(["line_a"], ["never_sent"])),
                          ("md_job_script_duplicate_cycle", js(["line_a"], []), js(["line_a"], ["blk"]))):
            out.append((nm, f"Select(MetaData(MetaData(ds, {a!r}), {b2!r}), lambda e: e.{c}('A').Count())"))
            out.append((nm + "_far_apart", f"Select(MetaData(Where(MetaData(ds, {a!r}), lambda e: e.{c}('A').Count() > 0), {b2!r}), lambda e: e.{c}('A').Count())"))
    # an injected function whose specification cannot bind a receiver, invoked like a method: the receiver would be dropped
    io = {"metadata_type": "add_cpp_function", "name": "IOnly", "include_files": [], "arguments": ["f"], "code": ["auto result = f * 1000.0;"], "return_type": "double", "instance_object": "X"}
    out.append(("function_without_method_object_called_as_method", f"Select(SelectMany(MetaData(ds, {io!r}), lambda e: e.{c}('A')), lambda j: j.IOnly(2.0))"))
    fn = dict(io, name="PlainFn")
    fn.pop("instance_object")
    out.append(("function_called_as_method", f"Select(SelectMany(MetaData(ds, {fn!r}), lambda e: e.{c}('A')), lambda j: j.PlainFn(2.0))"))
    # two inject_code blocks of one name that differ in line ORDER / in how often a line is repeated are different blocks
    if backend == "atlas":
        ic = lambda lines: {"metadata_type": "inject_code", "name": "blk", "ctor_lines": lines, "body_includes": ["a.h"]}  # noqa: E731
        out.append(("md_inject_same_name_reordered", f"Select(MetaData(MetaData(ds, {ic(['x = 1;', 'x = x * 2;'])!r}), {ic(['x = x * 2;', 'x = 1;'])!r}), lambda e: e.{c}('A').Count())"))
        out.append(("md_inject_same_name_repeated_line", f"Select(MetaData(MetaData(ds, {ic(['n += 1;'])!r}), {ic(['n += 1;', 'n += 1;'])!r}), lambda e: e.{c}('A').Count())"))
    # metadata deep in the chain / after other valid metadata
    out.append(("md_unknown_after_valid", f"Select(MetaData(MetaData(ds, {{'metadata_type': 'inject_code', 'name': 'ok', 'body_includes': ['a.h']}}), {{'metadata_type': 'bogus'}}), lambda e: e.{c}('A').Count())"))
    out.append(("md_unknown_on_outer", f"MetaData(Select(ds, lambda e: e.{c}('A').Count()), {{'metadata_type': 'bogus'}})"))
    if backend == "atlas":
        # the templated getAttribute on an object handed over by an earlier step (an expression receiver once the steps are fused)
        out.append(("getAttribute_after_handover", "Select(Select(ds, lambda e: e.Jets('A').First()), lambda j: j.getAttribute('emf'))"))
        out.append(("getAttribute_after_handover_in_tuple", "Select(Select(ds, lambda e: (e.Jets('A').First(), e.Jets('B').Count())), lambda t: (t[0].getAttribute('emf'), t[1]))"))
        out.append(("getAttribute_on_member_result", "Select(ds, lambda e: e.TruthParticles('TP').Select(lambda p: p.parent(0).getAttribute('x')))"))
    return out


def label_cases(backend: str, s) -> List[Tuple[str, str]]:
    c = s["main"]["coll"]
    two = f"Select(ds, lambda e: (e.{c}('A').Count(), e.{c}('B').Count()))"
    one = f"Select(ds, lambda e: e.{c}('A').Count())"
    return [("labels_too_few", f"ResultTTree({two}, ['a'], 't', 'f')"), ("labels_too_many", f"ResultTTree({two}, ['a', 'b', 'c'], 't', 'f')"),
            ("labels_none", f"ResultTTree({two}, [], 't', 'f')"), ("labels_two_for_scalar", f"ResultTTree({one}, ['a', 'b'], 't', 'f')"),
            ("raw_objects_final_selectmany", f"SelectMany(ds, lambda e: e.{c}('A'))"), ("raw_event_final", "Where(ds, lambda e: True)"),
            ("raw_objects_final_select", f"Select(ds, lambda e: e.{c}('A'))"), ("top_level_not_call", "ds"), ("top_level_value", f"Select(ds, lambda e: e.{c}('A').Count()).Count()")]


def run(ctx: Ctx) -> int:
    cases: List[Dict[str, Any]] = []
    if ctx.replay:
        rep = json.loads(Path(ctx.replay).read_text())["case"]
        cases = [rep]
    else:
        reps = ctx.pick(1, 8)
        for backend in sch.BACKENDS:
            s = sch.fixed(backend)
            G = grafts(backend, s)
            P = positions(backend, s)
            for gname, variants in G.items():
                for gkind, gfn in variants:
                    for pname, pkind, pfn in P:
                        if gkind == "col" and pkind != "col":
                            continue
                        if ctx.quick and (hash((gname, pname)) + ctx.seed) % 3 != 0 and pkind != "col":
                            continue
                        for r in range(reps):
                            R = ctx.rng("c09", backend, gname, pname, r)
                            g = qgen.QGen(s, R, nullable=False, first=False, index=False, minmax=False, agg_over_selectmany=False)

                            def gr(env, J, E, gfn=gfn, gkind=gkind, pkind=pkind, g=g):
                                return as_kind(gfn(g, env, J, E), gkind, pkind)
                            try:
                                q = pfn(gr, g)
                            except qgen.CannotGenerate:
                                continue
                            cases.append({"backend": backend, "graft": gname, "position": pname, "query": q})
            for name, q in metadata_cases(backend, s) + label_cases(backend, s):
                if name == "md_job_script_missing_dep" and backend != "atlas":
                    continue  # README: "the CMS backend will ignore any job script metadata sent to it"
                cases.append({"backend": backend, "graft": name, "position": "top", "query": q})
    reqs = []
    for i, c in enumerate(cases):
        s = sch.fixed(c["backend"])
        full = diff.attach_metadata(c["query"], diff.members_used(s, c["query"]))
        c["full_query"] = full
        reqs.append({"args": {"backend": c["backend"], "query": full, "out": str(ctx.scratch / f"p{i}")}})
    res = run_batch(reqs, ctx.scratch, timeout=60)
    known = ctx.known_entries()
    accepted = []
    for c, r, rq in zip(cases, res, reqs):
        ctx.count("evaluations")
        if r["status"] == "timeout":
            ctx.inconclusive.append(f"watchdog: {c['query'][:200]}")
            continue
        if r["status"] == "harness_error":
            ctx.count("harness_errors")
            ctx.notes.append(str(r)[:300])
            continue
        if r["status"] == "raised":
            ctx.count("refused")
            ctx.count("refused_" + r["exc"]["type"])
            ctx.seen((c["backend"], c["graft"], c["position"]))
            if c["position"] != "top":
                ctx.sample({"graft": c["graft"], "position": c["position"], "query": c["query"][:200], "refused_with": r["exc"]["type"]}, 5)
            continue
        ctx.count("accepted")
        ctx.count("accepted:" + c["graft"])
        accepted.append((c, rq))
    # a package was returned: classify against known findings, compile to show what was dropped
    model = {}
    n_built = 0
    for c, rq in accepted:
        hit = None
        for f in known:
            if c["graft"] in f.get("grafts", []):
                hit = f
        if hit is not None:
            ctx.known_hits[hit["key"]] += 1
            ctx.known_finding(hit["key"], hit["mechanism"][:170] + f" [witness: {c['backend']} {c['query'][:140]}]")
            continue
        extra = ""
        if n_built < 6:
            n_built += 1
            from ..edm import Model
            if c["backend"] not in model:
                model[c["backend"]] = Model(sch.clone(sch.fixed(c["backend"])), ctx.scratch / f"model_{c['backend']}")
            b = cxx.build_job(model[c["backend"]], Path(rq["args"]["out"]), Path(rq["args"]["out"] + "_job"))
            extra = " | emitted package " + ("compiles (the construct was silently dropped or mistranslated)" if b["ok"] else f"does not {b['stage']}: {b['errors'][:1]}")
        ctx.violation({"backend": c["backend"], "graft": c["graft"], "position": c["position"], "query": c["query"]},
                      f"[{c['backend']}] unsupported construct '{c['graft']}' at position '{c['position']}' was accepted (a package was returned): {c['query'][:300]}{extra}")
    ctx.extra["graft_catalogue"] = sorted({c["graft"] for c in cases})
    ctx.extra["positions"] = sorted({c["position"] for c in cases})
    return ctx.finish("exploration", RULE, ASSUME)
