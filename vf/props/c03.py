"""C03 - output tree schema and returned descriptor match the query's final shape.

The stand-in TTree logs every Branch(name, exact C++ type, address) at booking time and reads
the row through the bound addresses at Fill().  Oracle: branch names / order / count are the
ones the final expression names; the type is a scalar / vector / vector-of-vectors of the
class Python's value has (or exactly the declared type for a bare declared member); no two
branches share storage; values agree (so the storage booked is the storage set and filled);
the descriptor's tree name is the tree booked and filled, its file name is what runner.sh
delivers; a label-count mismatch raises."""
from __future__ import annotations

import json
import re
from pathlib import Path
from typing import Any, Dict, List, Optional, Tuple

from .. import container as ct, diff, evgen, qgen, schema as sch, shrink
from ..core import Ctx
from ..xlate import run_batch
from . import common
from .c13 import type_class

RULE = ("terminal forms {bare value, tuple, list, dict, nested sequences, explicit ResultTTree with arbitrary names incl. prefix-duplicates, digits, long and non-identifier names, wrong label counts} "
        "x column expressions from qgen and bare declared members x 3 backends; distinct = distinct (backend, terminal form, column shapes/kinds); non-trivial = at least 2 columns or a sequence column")
ASSUME = ["type expectations are classes (integral / floating / bool) except for a bare declared member, whose declared type is expected exactly",
          "conditional / Min / Max / ** / math-function columns may be floating although Python's value is an int"]

PREFIX = {"atlas": "atlas_xaod", "cms_aod": "cms_aod", "cms_miniaod": "cms_miniaod"}
EXACT = {"pt": "double", "eta": "double", "nTrk": "int", "width": "float", "isGood": "bool", "ttype": "float"}  # ttype: declared double with tree_type float
EXACT_VEC = {"hits": "int", "trkPts": "float", "weights": "double"}
NAMES = ["a", "b", "pt", "pt2", "pt22", "col1", "col0", "jet1pt", "x_1", "JetPt", "n", "a_very_long_branch_name_that_goes_on_and_on_0123456789", "int", "class", "result", "tree", "i_obj1", "_col1", "e"]
ODD_NAMES = ["jet pt", "pt-1", "pt.x", "1st", "met/GeV", "a+b", "ünï"]


def depth_and_kinds(v, d=0):
    if isinstance(v, (list, tuple)):
        out = [depth_and_kinds(x, d + 1) for x in v]
        depth = max([o[0] for o in out], default=d + 1)
        kinds = set().union(*[o[1] for o in out]) if out else set()
        return depth, kinds
    k = "bool" if isinstance(v, bool) else "int" if isinstance(v, int) else "float"
    return d, {k}


def _flat(v):
    if isinstance(v, (list, tuple)):
        for x in v:
            yield from _flat(x)
    else:
        yield v


def vec_depth(t: str) -> Tuple[int, str]:
    d = 0
    t = t.strip()
    while t.startswith("std::vector<") and t.endswith(">"):
        t = t[len("std::vector<"):-1].strip()
        d += 1
    return d, t


COLLIDING = [["jet.pt", "jet_pt", "jet pt", "jet-pt"], ["n-jets", "n jets", "n_jets"], ["a+b", "a_b", "a b"]]


def make_case(ctx: Ctx, backend: str, i: int, opts) -> Optional[Dict[str, Any]]:
    s = sch.fixed(backend)
    R = ctx.rng("c03", backend, i)
    g = qgen.QGen(s, R, **opts)
    C = s["main"]["coll"]
    rows = R.choice(["event", "event", "object"])
    if rows == "event":
        env = [("e", qgen.EVT)]
        src, var = "ds", "e"
    else:
        env = [("j", qgen.T_obj(s["collections"][C]["element"]))]
        src, var = f"ds.SelectMany(lambda e: e.{C}('A'))", "j"
    ncol = R.choice([1, 1, 2, 3, 4])
    cols = []
    for _ in range(ncol):
        r = R.random()
        if r > 0.86:
            # a conditional whose two arms are both integer / both boolean: "conditionals are floating"
            if rows == "object":
                cols.append((R.choice(["(j.nTrk() if j.pt() > 20.0 else 0)", "(j.isGood() if j.pt() > 20.0 else j.hasLead())", "(1 if j.isGood() else 2)", "(j.nTrk() if j.isGood() else j.nTrk() + 1)"]), "scalar", None))
            else:
                cols.append(R.choice([(f"(1 if e.{C}('A').Count() > 1 else 2)", "scalar"), (f"e.{C}('A').Select(lambda q: q.nTrk() if q.pt() > 20.0 else 0)", "list"),
                                      (f"((e.{C}('A').Count() > 1) if e.{C}('B').Count() > 0 else (e.{C}('A').Count() > 2))", "scalar"),
                                      (f"e.{C}('A').Select(lambda q: q.hits().Select(lambda h: h if h > 2 else 0 - h))", "list2"),
                                      (f"e.{C}('A').Select(lambda q: q.isGood() if q.pt() > 20.0 else q.hasLead())", "list")]) + (None,))
        elif 0.74 < r <= 0.79:
            # Range produces integers, however its bounds are typed (the README's CMS example bounds it by a method without a
            # declared type, which is assumed double)
            if rows == "object":
                cols.append(R.choice([("Range(0, j.eta())", "list", "int"), ("Range(0, j.pt()).Select(lambda i: i * 2)", "list", "int"), ("Range(0, j.nTrk()).Select(lambda i: i + 1)", "list", "int"),
                                      ("Range(0, j.pt() / 16).Count()", "scalar", "int")]))
            else:
                cols.append(R.choice([(f"e.{C}('A').Select(lambda q: Range(0, q.eta()))", "list2", "int"), (f"Range(0, e.{C}('A').Count() * 1.0)", "list", "int"),
                                      (f"e.{C}('A').Select(lambda q: Range(1, q.pt() / 8).Select(lambda i: i * i))", "list2", "int")]))
        elif r > 0.79:
            # integer operands whose result is not an integer (a power with an exponent negative at run time, a real division):
            # the column has to hold the value the expression has
            if rows == "object":
                cols.append((R.choice(["((j.nTrk() + 2) ** -1)", "(2 ** (0 - j.nTrk() - 1))", "(j.nTrk() / 4)", "((j.nTrk() + 1) ** (j.nTrk() - 3))", "(True / 4)",
                                       # an integer seed that is not a literal node, floating values folded in: the column holds the floating result
                                       "j.trkPts().Aggregate(-1, lambda a, x: a + x)", "j.weights().Aggregate((0 - 2), lambda a, x: a + x / 2)", "j.hits().Aggregate(-1, lambda a, x: a + x / 4)"]), "scalar", None))
            else:
                cols.append(R.choice([(f"((e.{C}('A').Count() + 1) ** -1)", "scalar"), (f"e.{C}('A').Select(lambda q: (q.nTrk() + 2) ** -2)", "list"), (f"(e.{C}('A').Count() / 8)", "scalar"),
                                      (f"e.{C}('A').Select(lambda q: q.hits().Select(lambda h: (h + 1) ** -1))", "list2")]) + (None,))
        elif r < 0.35:
            # bare declared member: exact type expected
            if rows == "object":
                m = R.choice(list(EXACT))
                cols.append((f"j.{m}()", "scalar", EXACT[m]))
            else:
                m = R.choice(list(EXACT) + list(EXACT_VEC))
                if m in EXACT:
                    cols.append((f"e.{C}('A').Select(lambda q: q.{m}())", "list", EXACT[m]))
                else:
                    cols.append((f"e.{C}('A').Select(lambda q: q.{m}().Select(lambda z: z))", "list2", None))
        else:
            try:
                txt, shape = g.column(env, R.choice([1, 2]), allow_seq=(rows == "event" or opts.get("obj_rows_with_seq_col", True)))
            except qgen.CannotGenerate:
                return None
            cols.append((txt, shape, None))
    form = R.choice(["bare", "tuple", "list", "dict", "explicit", "explicit"]) if ncol > 1 else R.choice(["bare", "dict", "explicit", "tuple1"])
    odd = False
    if form in ("dict", "explicit"):
        pool = list(NAMES)
        if R.random() < 0.25:
            pool += ODD_NAMES
        names = R.sample(pool, ncol)
        if ncol >= 2 and R.random() < 0.2:
            # distinct labels that turn into the same C++ identifier once sanitised: each still needs its own storage
            names[:2] = R.sample(R.choice(COLLIDING), 2)
        odd = any(n in ODD_NAMES for n in names) or any(n in g for g in COLLIDING for n in names)
    elif form == "bare" or ncol == 1 and form != "tuple1":
        names = ["col1"]
    else:
        names = [f"col{k}" for k in range(ncol)]
    tree = f"{PREFIX[backend]}_tree"
    if form == "bare":
        if ncol > 1:
            form = "tuple"
            names = [f"col{k}" for k in range(ncol)]
            body = "(" + ", ".join(c[0] for c in cols) + ")"
        else:
            body = cols[0][0]
    elif form in ("tuple", "tuple1"):
        body = "(" + ", ".join(c[0] for c in cols) + ("," if ncol == 1 else "") + ")"
        names = [f"col{k}" for k in range(ncol)]
    elif form == "list":
        body = "[" + ", ".join(c[0] for c in cols) + "]"
    elif form == "dict":
        body = "{" + ", ".join(f"{n!r}: {c[0]}" for n, c in zip(names, cols)) + "}"
    else:
        body = "(" + ", ".join(c[0] for c in cols) + ("," if ncol == 1 else "") + ")" if ncol > 1 or R.random() < 0.5 else cols[0][0]
    q = f"{src}.Select(lambda {var}: {body})"
    if form == "explicit":
        tree = R.choice(["mytree", "t", "analysis_tree_2", PREFIX[backend] + "_tree", "run2/jets", "jets;1", "my tree", "t.x", "Ünï_tree", "a:b"])
        lab = repr(names) if ncol > 1 or R.random() < 0.5 else repr(names[0])
        q = f"ResultTTree({q}, {lab}, {tree!r}, 'whatever.root')"
    return {"backend": backend, "query": q, "names": names, "tree": tree, "cols": cols, "form": form, "rows": rows, "odd_names": odd}


def check_book(case: Dict[str, Any], r: Dict[str, Any], refs) -> Optional[str]:
    run = r["run"]
    tr = r["translate"]
    if not run["book"]:
        return "no booking was observed"
    b = run["book"][0]
    if b["trees"] != [case["tree"]]:
        return f"trees booked {b['trees']}, expected exactly [{case['tree']!r}]"
    if tr["info"]["treename"] != case["tree"]:
        return f"descriptor treename {tr['info']['treename']!r}, job books {b['trees']}"
    names = [x["name"] for x in b["branches"]]
    if names != case["names"]:
        return f"branch names {names}, expected {case['names']}"
    if any(x["tree"] != case["tree"] for x in b["branches"]):
        return "a branch was booked on another tree"
    addrs = [x["addr"] for x in b["branches"]]
    if len(set(addrs)) != len(addrs):
        return f"two branches share one storage address: {list(zip(names, addrs))}"
    for ev in run["events"].values():
        for row in ev["rows"]:
            if row["tree"] != case["tree"]:
                return f"Fill() on tree {row['tree']!r}, descriptor says {case['tree']!r}"
            if [n for n, _ in row["cols"]] != case["names"]:
                return f"filled row has columns {[n for n, _ in row['cols']]}"
    # types
    for ci, (br, col) in enumerate(zip(b["branches"], case["cols"])):
        vals = [diff.rowvals(row)[ci] for ref in refs if ref[0] == "ROWS" for row in ref[1]]
        want_depth = {"scalar": 0, "list": 1, "list2": 2}[col[1]]
        d, base = vec_depth(br["type"])
        if d != want_depth:
            return f"column {br['name']}: booked as {br['type']}, the expression is a {col[1]} ({col[0][:80]})"
        tc = type_class(base)
        if tc.startswith("other"):
            return f"column {br['name']}: element type {base!r} is not a number type"
        if col[2] is not None:
            if base != col[2]:
                return f"column {br['name']}: declared type {col[2]}, booked {br['type']} ({col[0][:80]})"
            continue
        kinds = set()
        for v in vals:
            kinds |= depth_and_kinds(v)[1]
        if element_is_conditional(col[0]) and tc != "float":
            return f"column {br['name']}: the expression is a conditional (floating by the property's wording), booked {br['type']} ({col[0][:80]})"
        floating_ok = bool(re.search(r"\bif\b|\.Min\(|\.Max\(|Min\(|Max\(|\*\*", col[0])) or bool(_MATH_CALL.search(col[0]))
        if kinds == {"bool"} and tc != "bool" and not floating_ok:
            return f"column {br['name']}: values are booleans, booked {br['type']} ({col[0][:80]})"
        if kinds == {"int"} and tc == "float" and re.search(r"Sum\(|Aggregate\(", col[0]) and len({x for v in vals for x in _flat(v)}) <= 1:
            continue  # an aggregate over floating sequences that were empty in every event is Python's integer seed (0, -2 ...): says nothing about the column's class
        if kinds == {"int"} and tc != "int" and not floating_ok:
            return f"column {br['name']}: values are integers, booked {br['type']} ({col[0][:80]})"
        if "float" in kinds and tc != "float":
            return f"column {br['name']}: values are floating, booked {br['type']} ({col[0][:80]})"
    return None


# the documented math functions are cmath's (floating) functions: abs / floor / round ... of an integer is an int in Python, the
# column may be floating
from ..refrt import MATHFN as _MF  # noqa: E402
_MATH_CALL = re.compile(r"(?<![\w.])(" + "|".join(sorted(set(_MF) | {"abs", "pow"}, key=len, reverse=True)) + r")\(")


def element_is_conditional(text: str) -> bool:
    "the column's element expression (looking through trailing Select(lambda: ...) layers) is `a if c else b`"
    import ast
    try:
        n = ast.parse(text.strip(), mode="eval").body
    except SyntaxError:
        return False
    for _ in range(4):
        if isinstance(n, ast.IfExp):
            return True
        if isinstance(n, ast.Call) and ((isinstance(n.func, ast.Attribute) and n.func.attr == "Select") or (isinstance(n.func, ast.Name) and n.func.id == "Select")):
            lam = next((a for a in n.args if isinstance(a, ast.Lambda)), None)
            if lam is None:
                return False
            n = lam.body
            continue
        return False
    return False


def delivered_filename(ctx: Ctx, explicit: Optional[str] = None) -> Dict[str, Optional[str]]:
    "what the three runner.sh scripts deliver into an output DIRECTORY (container model); explicit: file name given to ResultTTree"
    out: Dict[str, Optional[str]] = {}
    if not ct.unshare_available():
        return out
    q = {"atlas": "ds.Select(lambda e: e.EventInfo('EventInfo').runNumber())", "cms_aod": "ds.Select(lambda e: e.Muons('A').Count())", "cms_miniaod": "ds.Select(lambda e: e.Muons('A').Count())"}
    if explicit is not None:
        q = {b: f"ResultTTree({t}, ['n'], 'mytree', {explicit!r})" for b, t in q.items()}
    trs = run_batch([{"args": {"backend": b, "query": q[b], "out": str(ctx.scratch / f"rpkg_{b}_{abs(hash(explicit)) % 1000}")}} for b in q], ctx.scratch)
    for b, tr in zip(q, trs):
        if tr["status"] != "ok":
            continue
        c = ct.Container(ctx.scratch / f"rct_{b}_{abs(hash(explicit)) % 1000}", ctx.scratch / f"rpkg_{b}_{abs(hash(explicit)) % 1000}", b, filelist_in_scripts="/data/x.root\n")
        res = c.invoke([])
        files = [p for p in res["changed"] if p.startswith("/results/")]
        out[b] = Path(files[0]).name if res["rc"] == 0 and len(files) == 1 else None
        out[b + "_descriptor"] = tr["info"]["filename"]
        c.destroy()
    return out


def run(ctx: Ctx) -> int:
    eng = diff.Engine(ctx)
    if ctx.replay:
        return common.replay_differential(ctx, eng, ctx.replay)
    opts = common.gen_options(ctx)
    known = ctx.all_known()
    n = ctx.pick(40, 500)
    specs = []
    # many cheap columns whose labels end in digits: the storage names minted from label + running number must stay apart
    # ('x1' + '2' and 'x' + '12' are both '_x12'); several offsets, because the running number depends on what was minted before
    for backend in sch.BACKENDS:
        C = sch.fixed(backend)["main"]["coll"]
        for first in range(ctx.pick(2, 6)):
            for stem in ("x", "pt"):
                labels = [f"p{i}" for i in range(first)] + [stem + "1"] + [f"c{i}" for i in range(9)] + [stem, stem + "2", "q"] + [f"d{i}" for i in range(8)] + [stem + "22"]
                cols = [(f"(j.pt() + {i})", "scalar", None) for i in range(len(labels))]
                q = f"ds.SelectMany(lambda e: e.{C}('A')).Select(lambda j: {{" + ", ".join(f"{l!r}: {c[0]}" for l, c in zip(labels, cols)) + "})"
                specs.append({"backend": backend, "query": q, "names": labels, "tree": f"{PREFIX[backend]}_tree", "cols": cols, "form": "dict_digit_labels", "rows": "object", "odd_names": False})
    for backend in sch.BACKENDS:
        k = 0
        i = 0
        while k < n and i < n * 5:
            i += 1
            c = make_case(ctx, backend, i, opts)
            if c is None:
                continue
            if c["odd_names"] and any(f.get("classifier") == "c03_non_identifier_label" for f in ctx.known_entries()):
                ctx.count("generator_rejected_known_shape")
                continue
            specs.append(c)
            k += 1
    for f in ctx.known_entries():
        w = f.get("witness", {})
        if w.get("kind") == "c03":
            specs.append(dict(w["case"], witness_of=f))
    cases = []
    for sp in specs:
        s = sch.fixed(sp["backend"])
        evs = evgen.gen_events(s, ctx.rng("ev", sp["query"]), 4)
        cases.append(diff.Case(sp["backend"], sp["query"], evs, diff.members_used(s, sp["query"]), tag=sp))
    results: List[Tuple[diff.Case, Dict[str, Any]]] = []
    diff.differential(ctx, eng, cases, lambda c, r: results.append((c, r)))
    for c, r in results:
        sp = c.tag
        ctx.count("evaluations")
        kind = shrink.failure_kind(r)
        why = None
        if kind in ("harness", "timeout"):
            ctx.count("harness_errors")
            ctx.notes.append(str(r.get("harness") or r.get("verdict", {}).get("harness"))[:200])
            continue
        if kind is not None and kind.startswith("refused") and r["translate"]["exc"]["where"].endswith("code_fill_ttree"):
            ctx.count("tolerated_refusals")
            continue
        if kind is not None:
            why = f"{kind}: {common.describe(r)}"
        else:
            ctx.count("jobs_compiled_and_run")
            ctx.count("branch_records", len(r["run"]["book"][0]["branches"]) if r["run"]["book"] else 0)
            ctx.count("fill_records", sum(len(e["rows"]) for e in r["run"]["events"].values()))
            why = check_book(sp, r, r["refs"])
        if "witness_of" in sp:
            f = sp["witness_of"]
            if why:
                ctx.known_finding(f["key"], f["mechanism"][:170] + f" [witness: {sp['query'][:120]} -> {why[:120]}]")
            else:
                ctx.notes.append(f"known finding {f['key']}: witness no longer fails")
            continue
        if why:
            hit = None
            if kind is not None:
                hit = __import__("vf.findings", fromlist=["classify"]).classify(known, c.query, kind, why)
            if hit:
                ctx.known_hits[hit["key"]] += 1
                continue
            ctx.violation(dict(c.replay(), expected_names=sp["names"], expected_tree=sp["tree"]), f"[{c.backend}] {why} :: {c.query[:300]}")
        else:
            ctx.seen((c.backend, sp["form"], sp["rows"], tuple(x[1] for x in sp["cols"]), tuple(x[2] for x in sp["cols"])), len(sp["cols"]) >= 2 or any(x[1] != "scalar" for x in sp["cols"]))
            ctx.sample({"backend": c.backend, "query": c.query[:200], "branches": [(b["name"], b["type"]) for b in r["run"]["book"][0]["branches"]]}, 4)
    # label-count mismatches must raise
    lreqs, lmeta = [], []
    for backend in sch.BACKENDS:
        C = sch.fixed(backend)["main"]["coll"]
        for ncol in (1, 2, 3):
            for nlab in (0, 1, 2, 3, 4):
                if nlab == ncol:
                    continue
                body = "(" + ", ".join(f"e.{C}('A').Count() + {k}" for k in range(ncol)) + ("," if ncol == 1 else "") + ")"
                bodies = [body]
                if ncol == 1:
                    # bare (non-tuple) final values: scalar, vector, per-object value
                    bodies += [f"e.{C}('A').Count()", f"e.{C}('A').Select(lambda j: j.pt())"]
                for bd in bodies:
                    q = f"ResultTTree(ds.Select(lambda e: {bd}), {[f'n{k}' for k in range(nlab)]!r}, 't', 'f.root')"
                    lreqs.append({"args": {"backend": backend, "query": q, "out": str(ctx.scratch / f"lab{len(lreqs)}")}})
                    lmeta.append((backend, ncol, nlab, q))
                if ncol == 1:
                    q = f"ResultTTree(ds.SelectMany(lambda e: e.{C}('A')).Select(lambda j: j.pt()), {[f'n{k}' for k in range(nlab)]!r}, 't', 'f.root')"
                    lreqs.append({"args": {"backend": backend, "query": q, "out": str(ctx.scratch / f"lab{len(lreqs)}")}})
                    lmeta.append((backend, ncol, nlab, q))
    for (backend, ncol, nlab, q), r in zip(lmeta, run_batch(lreqs, ctx.scratch)):
        ctx.count("evaluations")
        ctx.count("label_count_cases")
        if r["status"] == "ok":
            ctx.violation({"backend": backend, "query": q}, f"[{backend}] {ncol} columns with {nlab} labels was accepted: {q}")
        else:
            ctx.seen((backend, "labels", ncol, nlab))
    # the file name in the descriptor is the file runner.sh delivers
    for explicit in (None, "muons.root", "ANALYSIS.root", "my out.root", "data.txt"):
        deliv = delivered_filename(ctx, explicit)
        ctx.extra[f"delivered_vs_descriptor_filename[{explicit}]"] = deliv
        for b in sch.BACKENDS:
            if b not in deliv:
                ctx.notes.append(f"container model unavailable for {b}: descriptor file name not compared")
                continue
            ctx.count("evaluations")
            ctx.count("descriptor_filename_vs_delivery_compared")
            if deliv[b] != deliv[b + "_descriptor"]:
                ctx.violation({"backend": b, "delivered": deliv[b], "descriptor": deliv[b + "_descriptor"], "explicit_name": explicit},
                              f"[{b}] runner.sh delivers {deliv[b]!r} but the descriptor names {deliv[b + '_descriptor']!r} (file name given to ResultTTree: {explicit!r})")
    return ctx.finish("exploration", RULE, ASSUME)
