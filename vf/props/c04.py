"""C04 - faults are equivalent: loud on empty First / bad index, never spurious.

Per decided event the job's outcome must be equivalent to the reference outcome:
ROWS r == status OK with rows r;  FAULT == an exception / FAILURE visible to the framework;
NULL_DEREF monitor records, sanitizer reports and exceptions must never appear on an event where
the query is defined (a guard failed to protect)."""
from __future__ import annotations

from typing import Any, Dict, List

from .. import diff, evgen, qgen, schema as sch
from ..core import Ctx
from . import common

RULE = ("enumerated guard templates (Count()>0 and First(); First() if Count()>0 else c; Where(p).First(); or-guards; nested guards; index against Count(); guards at event / element level and in "
        "another step of the chain; nullable links behind flags / isNonnull; each also UNGUARDED) x backends x events where every collection is empty / singleton / many and every link "
        "null / non-null, plus random queries biased to partial operations; distinct = distinct (backend, template or operator multiset); non-trivial = query contains a partial operation")
ASSUME = ["which of several faults of one event fires first is not fixed (columns have no order): any loud ending matches a reference fault",
          "lazy / eager / skip-unused evaluation orders that disagree make the event UNSPEC (the property only fixes laziness for and/or, conditional arms and Where)"]


def templates(backend: str, s) -> List[str]:
    C = s["main"]["coll"]
    J = f"e.{C}('A')"
    K = f"e.{C}('B')"
    T = [
        f"ds.Select(lambda e: {J}.First().pt())",
        f"ds.Select(lambda e: {J}.Count() > 0 and {J}.First().pt() > 10.0)",
        f"ds.Select(lambda e: {J}.Count() == 0 or {J}.First().pt() > 10.0)",
        f"ds.Select(lambda e: {J}.First().pt() if {J}.Count() > 0 else -1.0)",
        f"ds.Select(lambda e: -1.0 if {J}.Count() == 0 else {J}.First().pt())",
        f"ds.Select(lambda e: ({J}.Count(), {J}.First().pt() if {J}.Count() > 0 else -1.0, {K}.Count()))",
        f"ds.Where(lambda e: {J}.Count() > 0).Select(lambda e: {J}.First().pt())",
        f"ds.Where(lambda e: {J}.Count() > 0).Select(lambda e: {K}.First().pt())",
        f"ds.Where(lambda e: {J}.Count() > 0 and {K}.Count() > 0).Select(lambda e: ({J}.First().pt(), {K}.First().eta()))",
        f"ds.Select(lambda e: {J}.Where(lambda j: j.pt() > 30.0).First().pt())",
        f"ds.Select(lambda e: {J}.Where(lambda j: j.pt() > 30.0).First().pt() if {J}.Where(lambda j: j.pt() > 30.0).Count() > 0 else 0.0)",
        f"ds.Select(lambda e: {J}.Where(lambda j: j.pt() > 30.0).Count() > 0 and {J}.Where(lambda j: j.pt() > 30.0).First().eta() > 0.0)",
        f"ds.Select(lambda e: {J}.Select(lambda j: j.pt()).Where(lambda p: p > 30.0).First())",
        f"ds.Select(lambda e: {J}[0].pt())",
        f"ds.Select(lambda e: {J}[1].pt() if {J}.Count() > 1 else -1.0)",
        f"ds.Select(lambda e: {J}.Count() > 2 and {J}[2].pt() > 5.0)",
        f"ds.Select(lambda e: ({J}[0].pt() if {J}.Count() > 0 else 0.0) + ({K}[0].pt() if {K}.Count() > 0 else 0.0))",
        f"ds.Select(lambda e: {J}.Select(lambda j: j.trkPts()[0]))",
        # a guarded filter whose result feeds SEVERAL columns: the filter (and its guard) is translated once per use
        f"ds.Select(lambda e: {J}.Where(lambda j: j.trkPts().Count() > 0 and j.trkPts().First() > 5.0)).Select(lambda g: (g.Select(lambda j: j.pt()), g.Select(lambda j: j.eta())))",
        f"ds.Select(lambda e: {J}.Where(lambda j: j.tracks().Count() > 1 and j.tracks()[1].pt() > 5.0)).Select(lambda g: {{'a': g.Select(lambda j: j.pt()), 'b': g.Count(), 'c': g.Select(lambda j: j.eta())}})",
        f"ds.Select(lambda e: {J}.Where(lambda j: j.trkPts().Count() == 0 or j.trkPts().First() > 5.0)).Select(lambda g: (g.Count(), g.Select(lambda j: j.pt()), g.Select(lambda j: j.trkPts().Count())))",
        f"ds.Select(lambda e: {J}.Where(lambda j: (j.trkPts().First() if j.trkPts().Count() > 0 else 0.0) > 5.0)).Select(lambda g: (g.Select(lambda j: j.pt()), g.Select(lambda j: j.eta()), g.Count()))",
        f"ds.SelectMany(lambda e: {J}.Where(lambda j: j.tracks().Count() > 0 and j.tracks().First().pt() > 5.0)).Select(lambda j: (j.pt(), j.eta(), j.tracks().First().pt()))",
        # a literal flag (a captured Python variable) AFTER a partial operation decides the test but not whether the operation runs
        f"ds.Where(lambda e: {J}.First().pt() > 30.0 or True).Select(lambda e: {J}.Count())",
        f"ds.Where(lambda e: {J}.First().pt() > 30.0 and False).Select(lambda e: {J}.Count())",
        f"ds.Select(lambda e: {J}.Select(lambda j: 1 if (j.trkPts()[2] > 5.0 or True) else 0))",
        f"ds.Select(lambda e: 1.0 if ({K}[1].pt() > 0.0 and False) else 2.0)",
        f"ds.Select(lambda e: {J}.Where(lambda j: not (j.trkPts().First() > 1.0 and False)).Count())",
        f"ds.Where(lambda e: True or {J}.First().pt() > 30.0).Select(lambda e: {J}.Count())",
        f"ds.Where(lambda e: False and {J}.First().pt() > 30.0).Select(lambda e: {J}.Count())",
        # a collection whose declared container class is not a std:: one
        f"ds.Select(lambda e: {J}.Select(lambda j: j.ptList()[0]))",
        f"ds.Select(lambda e: {J}.Select(lambda j: j.ptList()[2] if j.ptList().Count() > 2 else -1.0))",
        f"ds.SelectMany(lambda e: {J}).Select(lambda j: (j.ptList()[1], j.ptList().Count()))",
        f"ds.Select(lambda e: {J}.Where(lambda j: j.ptList().Count() > 0 and j.ptList()[0] > 5.0).Select(lambda j: j.ptList().First()))",
        f"ds.Select(lambda e: {J}.Select(lambda j: j.trkPts()[0] if j.trkPts().Count() > 0 else -1.0))",
        f"ds.Select(lambda e: {J}.Select(lambda j: j.trkPts()[1] if j.trkPts().Count() > 1 else -1.0))",
        f"ds.Select(lambda e: {J}.Select(lambda j: j.trkPts().First()))",
        f"ds.Select(lambda e: {J}.Select(lambda j: j.trkPts().Count() > 0 and j.trkPts().First() > 5.0))",
        f"ds.Select(lambda e: {J}.Where(lambda j: j.trkPts().Count() > 0).Select(lambda j: j.trkPts().First()))",
        f"ds.Select(lambda e: {J}.Where(lambda j: j.tracks().Count() > 0).Select(lambda j: j.tracks().First().pt()))",
        f"ds.Select(lambda e: {J}.Select(lambda j: j.tracks().First().pt() if j.tracks().Count() > 0 else -1.0))",
        f"ds.Select(lambda e: {J}.Select(lambda j: j.tracks().Where(lambda t: t.pt() > 20.0).First().pt() if j.tracks().Where(lambda t: t.pt() > 20.0).Count() > 0 else -1.0))",
        f"ds.Select(lambda e: {J}.Select(lambda j: j.tracks().Select(lambda t: t.d0s().First() if t.d0s().Count() > 0 else 0.0)))",
        f"ds.SelectMany(lambda e: {J}).Select(lambda j: j.trkPts().First() if j.trkPts().Count() > 0 else -1.0)",
        f"ds.SelectMany(lambda e: {J}).Where(lambda j: j.trkPts().Count() > 0).Select(lambda j: j.trkPts().First())",
        f"ds.SelectMany(lambda e: {J}).Select(lambda j: j.trkPts().First())",
        f"ds.SelectMany(lambda e: {J}).Where(lambda j: j.tracks().Count() > 1).Select(lambda j: j.tracks()[1].pt())",
        f"ds.Select(lambda e: ({J}.Count() > 0 and {J}.First().pt() > 5.0) or ({K}.Count() > 0 and {K}.First().pt() > 5.0))",
        f"ds.Select(lambda e: ({J}.First().pt() if {J}.First().trkPts().Count() > 0 else -2.0) if {J}.Count() > 0 else -1.0)",
        f"ds.Select(lambda e: {J}.Count() > 0 and {J}.First().trkPts().Count() > 0 and {J}.First().trkPts().First() > 1.0)",
        f"ds.Select(lambda e: {J}.Select(lambda j: j.pt()).Sum() / {J}.Count() if {J}.Count() > 0 else 0.0)",
        f"ds.Select(lambda e: not ({J}.Count() == 0) and {J}.First().pt() > 1.0)",
        f"ds.Select(lambda e: {J}.Where(lambda j: j.trkPts().Count() > 0 and j.trkPts().First() > 10.0).Count())",
        f"ds.Select(lambda e: {J}.Where(lambda j: j.trkPts().Count() == 0 or j.trkPts().First() > 10.0).Select(lambda j: j.pt()))",
        f"ds.Select(lambda e: Range(0, {J}.Count()).Select(lambda i: i).First() if {J}.Count() > 0 else -1)",
        # a partial operation INSIDE the test of a conditional / as an operand of the comparison that guards
        f"ds.Select(lambda e: {J}.Where(lambda j: j.trkPts().Count() > 0).Select(lambda j: j.pt() if j.trkPts().First() > 5.0 else 0.0))",
        f"ds.Select(lambda e: {J}.Select(lambda j: (j.pt() if j.trkPts().First() > 5.0 else 0.0) if j.trkPts().Count() > 0 else -1.0))",
        f"ds.SelectMany(lambda e: {J}).Where(lambda j: j.tracks().Count() > 0).Select(lambda j: (1.0 if j.tracks().First().pt() > 10.0 else 2.0, j.pt()))",
        f"ds.Select(lambda e: (10.0 if {J}.First().pt() > 20.0 else {J}.First().eta()) if {J}.Count() > 0 else -1.0)",
        f"ds.Select(lambda e: {J}.Select(lambda j: j.trkPts()[1] if j.trkPts()[0] > 5.0 else -2.0))",
        f"ds.Where(lambda e: {J}.First().pt() > 10.0).Select(lambda e: {J}.Count())",
        f"ds.Select(lambda e: 1.0 if ({J}.Count() > 0 and {J}.First().pt() > 10.0) else 0.0)",
        f"ds.Select(lambda e: {J}.Select(lambda j: 1 if (j.trkPts().Count() > 1 and j.trkPts()[1] > j.trkPts().First()) else 0))",
        # the partial operation in the ELSE arm, statement-free (an index, a member chain) and with statements of its own
        f"ds.Select(lambda e: -1.0 if {J}.Count() < 2 else {J}[1].pt())",
        f"ds.Select(lambda e: (-1.0 if {J}.Count() < 2 else {J}[1].pt()) * 2 + 1)",
        f"ds.Select(lambda e: {J}.Select(lambda j: -1.0 if j.trkPts().Count() < 2 else j.trkPts()[1]))",
        f"ds.SelectMany(lambda e: {J}).Select(lambda j: (-1.0 if j.tracks().Count() < 1 else j.tracks()[0].pt(), j.pt()))",
        f"ds.Select(lambda e: (0.0 if {J}.Count() == 0 else {J}[0].pt()) + (0.0 if {K}.Count() < 2 else {K}[1].eta()))",
        f"ds.Select(lambda e: (-1.0 if {J}.Count() == 0 else {J}.First().pt()) / 1000.0)",
        # a filter / projection that never looks at its element but holds a partial operation on ANOTHER collection: it is
        # evaluated once per element, so not at all when the source is empty
        f"ds.Select(lambda e: {J}.Where(lambda j: {K}.First().pt() > 5.0).Count())",
        f"ds.Select(lambda e: {J}.Where(lambda j: {K}.First().pt() > 5.0).Select(lambda j: j.pt()))",
        f"ds.Select(lambda e: {J}.Select(lambda j: {K}[0].pt()))",
        f"ds.Select(lambda e: {J}.Select(lambda j: j.trkPts().Where(lambda t: j.tracks().First().pt() > 5.0).Count()))",
        f"ds.Select(lambda e: {J}.Where(lambda j: {K}[1].eta() > 0.0).Select(lambda j: j.eta()).Sum())",
        # ONE sequence bound to a lambda parameter, used under a guard and again without one in the same row / in the next step
        f"ds.Select(lambda e: {J}.Where(lambda j: j.pt() > 30.0)).Select(lambda g: (g.First().pt() if g.Count() > 0 else -1.0, g.First().eta()))",
        f"ds.Select(lambda e: {J}.Where(lambda j: j.pt() > 30.0)).Select(lambda g: {{'pt': g.First().pt() if g.Count() > 0 else -1.0, 'eta': g.First().eta()}})",
        f"ds.Select(lambda e: {J}.Where(lambda j: j.pt() > 30.0)).Select(lambda g: (g.Count() > 0 and g.First().pt() > 40.0, g.First().eta()))",
        f"ds.Select(lambda e: {J}.Where(lambda j: j.pt() > 30.0)).Select(lambda g: (g.First().eta(), g.First().pt() if g.Count() > 0 else -1.0))",
        f"ds.Select(lambda e: ({J}.Where(lambda j: j.pt() > 30.0), {K})).Select(lambda t: (t[0].First().pt() if t[0].Count() > 0 else -1.0, t[1].Count(), t[0].First().eta()))",
    ]
    if backend == "atlas":
        T += [
            f"ds.Select(lambda e: {J}.Select(lambda j: j.leadTrack().pt() if j.hasLead() else -1.0))",
            f"ds.Select(lambda e: {J}.Select(lambda j: j.hasLead() and j.leadTrack().pt() > 5.0))",
            f"ds.Select(lambda e: {J}.Select(lambda j: (not j.hasLead()) or j.leadTrack().pt() > 5.0))",
            f"ds.Select(lambda e: {J}.Where(lambda j: j.hasLead()).Select(lambda j: j.leadTrack().pt()))",
            f"ds.SelectMany(lambda e: {J}).Where(lambda j: j.hasLead()).Select(lambda j: (j.pt(), j.leadTrack().nHits()))",
            f"ds.Select(lambda e: {J}.Where(lambda j: j.hasLead() and j.leadTrack().pt() > 10.0).Count())",
            f"ds.Select(lambda e: e.TruthParticles('TP').Select(lambda p: p.prodVtx().x() if p.hasProd() else 0.0))",
            f"ds.Select(lambda e: e.TruthParticles('TP').Where(lambda p: p.hasParent()).Select(lambda p: p.parent().pdgId()))",
            f"ds.Select(lambda e: e.TruthParticles('TP').Where(lambda p: p.hasParent() and p.parent().hasProd()).Select(lambda p: p.parent().prodVtx().z()))",
        ]
    else:
        T += [
            f"ds.Select(lambda e: {J}.Select(lambda j: j.globalTrack().pt() if isNonnull(j.globalTrack()) else -1.0))",
            f"ds.Select(lambda e: {J}.Select(lambda j: isNonnull(j.globalTrack()) and j.globalTrack().pt() > 5.0))",
            f"ds.Select(lambda e: {J}.Select(lambda j: (not isNonnull(j.globalTrack())) or j.globalTrack().pt() > 5.0))",
            f"ds.Select(lambda e: {J}.Where(lambda j: isNonnull(j.globalTrack())).Select(lambda j: j.globalTrack().pt()))",
            f"ds.SelectMany(lambda e: {J}).Where(lambda j: isNonnull(j.globalTrack())).Select(lambda j: (j.pt(), j.globalTrack().nHits()))",
            f"ds.Select(lambda e: {J}.Where(lambda j: isNonnull(j.globalTrack()) and j.globalTrack().pt() > 10.0).Count())",
            f"ds.Select(lambda e: {J}.Select(lambda j: j.globalTrack().pt() if j.hasLead() else -1.0))",
            f"ds.Select(lambda e: {J}.Where(lambda j: j.hasLead()).Select(lambda j: j.globalTrack().hitPattern().numberOfValidHits()))",
        ]
    return T


def events_for(ctx: Ctx, backend: str, key) -> List[Dict[str, Any]]:
    s = sch.fixed(backend)
    R = ctx.rng("ev", backend, key)
    profs = ["empty", "single", "dense", "mixed", "empty", "dense", "single", "mixed", "ties", "dense"]
    return [evgen.gen_event(s, R, p) for p in profs[: ctx.pick(8, 10)]]


def run(ctx: Ctx) -> int:
    eng = diff.Engine(ctx)
    if ctx.replay:
        return common.replay_differential(ctx, eng, ctx.replay)
    common.run_witnesses(ctx, eng)
    opts = common.gen_options(ctx, partial_bias=3.0)
    from .c01 import tolerated   # refusal of a bare collection-valued member as a column: C01's tolerated refusal, not a fault question
    judge = common.Judge(ctx, eng, tolerated_refusal=tolerated, max_shrinks=ctx.pick(2, 6))
    for backend in sch.BACKENDS:
        s = sch.fixed(backend)
        cases = []
        for i, t in enumerate(templates(backend, s)):
            cases.append(diff.Case(backend, t, events_for(ctx, backend, i % 3), diff.members_used(s, t), tag={"features": {"template": 2, f"t{i}": 1}, "template": i}))
        n = ctx.pick(25, 600)
        cases += common.make_cases(ctx, backend, n, ctx.pick([2, 3], [2, 3, 4]), opts, stream="c04",
                                   accept=lambda q: any(k in q["features"] for k in ("First_num", "First_obj", "index_vec", "index_coll", "nullable_guard", "guard_count_first")))
        diff.differential(ctx, eng, cases, judge.on_result)
    judge.settle()
    if ctx.counters["fault_events_compared"] == 0:
        ctx.inconclusive.append("no event with a reference fault was observed")
    return ctx.finish("exploration", RULE, ASSUME)
