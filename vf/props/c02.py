"""C02 - every accepted query yields a complete, self-consistent, compilable package.

For every translation that returns: (a) the file set is complete, the entry script is
executable and no template directive survives; (b) the unmodified C++ compiles and links
against the model of the declared data model, with clang's uninitialized / shadow diagnostics
inspected for translator-minted names; (c) an identifier monitor attached to the running
translator (unique_name wrapped in every module that imported it) checks that every minted
name occurring in the rendered code has exactly one declaration which precedes all its uses
and whose brace block encloses them; (d) thorough tier: a sample of jobs built without ASan runs
under valgrind (uninitialised reads)."""
from __future__ import annotations

import json
import os
import re
import shutil
import subprocess
from pathlib import Path
from typing import Any, Dict, List, Optional, Tuple

from .. import cxx, diff, edm, evgen, findings, qgen, schema as sch, shrink
from ..core import Ctx, parallel_map
from . import common

RULE = ("qgen queries (all shapes, including those of known value findings) + metadata-heavy queries (inject_code, C++ functions, declared collections, job scripts) x 3 backends in equal volume; "
        "every accepted translation is checked for completeness, compiled, and its minted identifiers audited; distinct = distinct (backend, operator multiset); non-trivial = at least 2 operators")
ASSUME = ["the compiler is the judge of 'well-formed against the data model as declared'; templates are compiled against the model framework shells, not the real AnalysisBase/CMSSW headers",
          "shadow diagnostics are only charged to the translator when they name a translator-minted identifier; a static 'uninitialized' diagnostic sends the job to valgrind memcheck, which decides"]

EXPECTED_FILES = {"atlas": ["ATestRun_eljob.py", "package_CMakeLists.txt", "query.cxx", "query.h", "runner.sh"],
                  "cms_aod": ["analyzer_cfg.py", "Analyzer.cc", "BuildFile.xml", "copy_root_tree.C", "runner.sh"],
                  "cms_miniaod": ["analyzer_cfg.py", "Analyzer.cc", "BuildFile.xml", "copy_root_tree.C", "runner.sh"]}
EXTRA_MD = [
    # a realistic multi-line body: two if-blocks, so the closing brace line (and a statement) repeat
    {"metadata_type": "inject_code", "name": "blkA", "body_includes": ["c02_inc.h"], "header_includes": ["c02_h1.h", "c02_h2.h"],
     "private_members": ["int m_c02 = 0;", "int m_c02b = 0;", "C02A m_c02_a;", "C02B m_c02_b;"],
     "ctor_lines": ["if (m_c02 > 5) {", "m_c02 = 0;", "}", "if (m_c02b > 5) {", "m_c02b = 0;", "}"], "initialize_lines": ["m_c02 += 1;", "m_c02b += 1;", "m_c02 += 1;"]},
    {"metadata_type": "add_cpp_function", "name": "C02F", "include_files": ["cmath"], "arguments": ["x"], "code": ["double t = x;\n", "auto result = std::sqrt(t * t) +\n      1.0;"], "return_type": "double"},  # a line break inside a statement, and one after it
    {"metadata_type": "add_job_script", "name": "c02js", "script": ["# c02 job script"], "depends_on": []},
]


def name_monitor(args, phase, state):
    "records every name minted by unique_name during this translation (all import aliases patched)"
    import sys
    if phase == "before":
        import func_adl_xAOD.common.cpp_vars as cv
        orig = cv.unique_name
        minted: List[str] = []

        def wrapped(name, is_class_var=False):
            n = orig(name, is_class_var)
            minted.append(n)
            return n
        patched = 0
        for m in list(sys.modules.values()):
            if m is not None and getattr(m, "__name__", "").startswith("func_adl_xAOD") and getattr(m, "unique_name", None) is orig:
                setattr(m, "unique_name", wrapped)
                patched += 1
        state["_minted"] = minted
        state["modules_patched"] = patched
    else:
        state["minted"] = list(state.get("_minted", []))


_DECL = r"(?:^|[;{{}}]\s*|\(\s*auto\s*&&\s*)(?:const\s+)?[A-Za-z_][\w:<>,\s\*&]*?[\s\*&]{name}\s*(?:;|\(|=|:)"


def audit_identifiers(code_lines: List[str], class_lines: List[str], minted: List[str]) -> Optional[str]:
    """Every minted name occurring in the per-event code: exactly one declaration (in the code or in the class),
    the declaration is the first occurrence, and all occurrences lie inside the brace block of the declaration."""
    text = "\n".join(code_lines)
    ctext = "\n".join(class_lines)
    # brace depth / block id per character position
    for name in dict.fromkeys(minted):
        if not re.fullmatch(r"[A-Za-z_][A-Za-z0-9_]*", name):
            return f"minted identifier {name!r} is not an identifier of the basic source character set (the compilers of the target releases reject it)"
        occ = [m.start() for m in re.finditer(rf"(?<![\w]){re.escape(name)}(?![\w])", text)]
        if not occ:
            continue
        decl_code = [m for m in re.finditer(rf"(?:(?:const\s+)?[A-Za-z_][\w:<>, ]*[\s\*&]+|auto\s*&&\s*){re.escape(name)}\s*(?:;|\(|:)", text)
                     if not re.match(r"\s*(return|else|delete|throw)\b", text[m.start():m.start() + 10])]
        decl_class = re.findall(rf"[\w:<>, \*]+\s+{re.escape(name)}\s*;", ctext)
        ndecl = len(decl_code) + len(decl_class)
        if ndecl == 0:
            return f"minted identifier {name} is used but never declared"
        if ndecl > 1:
            return f"minted identifier {name} is declared {ndecl} times"
        if decl_class:
            continue
        d = decl_code[0]
        dpos = text.index(name, d.start())
        if occ[0] < dpos:
            return f"minted identifier {name} is used before its declaration"
        # enclosing block of the declaration: scan back to the unmatched '{'
        depth = 0
        start = 0
        for i in range(dpos, -1, -1):
            ch = text[i]
            if ch == "}":
                depth += 1
            elif ch == "{":
                if depth == 0:
                    start = i
                    break
                depth -= 1
        # for-loop variables live in the block that follows the for header
        is_for = text[max(0, d.start() - 6):d.end()].find("auto") >= 0 and "for (" in text[max(0, d.start() - 12):d.end()]
        depth = 0
        end = len(text)
        seen_open = not is_for
        for i in range(dpos, len(text)):
            ch = text[i]
            if ch == "{":
                depth += 1
                seen_open = True
            elif ch == "}":
                depth -= 1
                if depth < 0 and not is_for:
                    end = i
                    break
                if is_for and seen_open and depth == 0:
                    end = i
                    break
        outside = [p for p in occ if p > end]
        if outside:
            return f"minted identifier {name} is used outside the block that declares it"
    return None


def completeness(pkg: Path, backend: str, info: Dict[str, Any], inputs_text: str) -> Optional[str]:
    if sorted(info["all_filenames"]) != sorted(EXPECTED_FILES[backend]):
        return f"returned file list {info['all_filenames']}"
    for f in info["all_filenames"]:
        p = pkg / f
        if not p.is_file():
            return f"file {f} named in the returned info does not exist"
        if p.stat().st_size == 0:
            return f"file {f} is empty"
        t = p.read_text()
        for tok in ("{{", "{%", "{#"):
            if tok in t and tok not in inputs_text and f not in ("runner.sh",):
                return f"unrendered template directive {tok!r} left in {f}"
    ms = pkg / info["main_script"]
    if not ms.is_file() or not os.access(ms, os.X_OK):
        return f"entry script {info['main_script']} missing or not executable"
    # self-consistent: every file is rendered from the template of that name in THIS backend's template directory (of the tree
    # under test): a template without directives arrives byte for byte, the directive-free lines of the others arrive in order
    from ..core import REPO
    tdir = REPO / "func_adl_xAOD" / "template" / TEMPLATE_DIR[backend]
    for f in info["all_filenames"]:
        tf = tdir / f
        if not tf.is_file():
            return f"file {f} has no template in {TEMPLATE_DIR[backend]}"
        ttxt, got = tf.read_text(), (pkg / f).read_text()
        if "{{" not in ttxt and "{%" not in ttxt:
            if got.rstrip("\n") != ttxt.rstrip("\n"):
                return f"file {f} is not this backend's {TEMPLATE_DIR[backend]}/{f} (a template without directives must arrive unchanged)"
            continue
        fixed = [l.strip() for l in ttxt.splitlines() if l.strip() and "{{" not in l and "{%" not in l and "{#" not in l and "#}" not in l]
        it = iter(l.strip() for l in got.splitlines())
        for want in fixed:
            if not any(want == g for g in it):
                return f"file {f}: line {want[:80]!r} of this backend's template {TEMPLATE_DIR[backend]}/{f} is missing or out of order"
    return None


TEMPLATE_DIR = {"atlas": "atlas/r21", "cms_aod": "cms/r5", "cms_miniaod": "cms/r7"}


def code_region(pkg: Path, backend: str) -> Tuple[List[str], List[str]]:
    if backend == "atlas":
        t = (pkg / "query.cxx").read_text()
        a, b = t.index("StatusCode query :: execute ()"), t.index("StatusCode query :: finalize ()")
        h = (pkg / "query.h").read_text()
        return t[a:b].splitlines(), h[h.index("// Class level variables"):].splitlines()
    t = (pkg / "Analyzer.cc").read_text()
    a, b = t.index("void Analyzer::analyze("), t.index("// ------------ method called once each job just before")
    c0, c1 = t.index("TTree *myTree;"), t.index("Analyzer::Analyzer(")
    return t[a:b].splitlines(), t[c0:c1].splitlines()


def run(ctx: Ctx) -> int:
    eng = diff.Engine(ctx)
    if ctx.replay:
        return common.replay_differential(ctx, eng, ctx.replay)
    common.run_witnesses(ctx, eng)
    known = ctx.all_known()
    # all shapes allowed except the ones that cannot compile for a known reason unrelated to identifiers
    opts = common.gen_options(ctx, agg_over_selectmany=True, obj_rows_with_seq_col=True, minmax=True)
    n = ctx.pick(56, 1200)
    cases: List[diff.Case] = []
    for backend in sch.BACKENDS:
        cs = common.make_cases(ctx, backend, n, ctx.pick([1, 2, 3], [1, 2, 3, 4]), opts, nevents=3, stream="c02")
        for i, c in enumerate(cs):
            R = ctx.rng("md", backend, i)
            if R.random() < 0.35:
                extra = [m for m in EXTRA_MD if R.random() < 0.6 and not (m["metadata_type"] == "inject_code" and backend != "atlas")]
                c.metadata = c.metadata + extra
                if any(m["name"] == "C02F" for m in extra if "name" in m):
                    c.query = re.sub(r"(v\d+)\.pt\(\)", lambda m: f"C02F({m.group(0)})", c.query, count=1)
        cases += cs
    # guard templates (partial operations in conditional tests / arms / guards): the shapes where scope handling is most delicate
    from .c04 import templates as guard_templates
    for backend in sch.BACKENDS:
        s = sch.fixed(backend)
        ts = guard_templates(backend, s)
        for i, t in enumerate(ts):
            if ctx.quick and (i + ctx.seed) % 2:
                continue
            extra = [EXTRA_MD[0]] if backend == "atlas" and i % 5 == 0 else []
            cases.append(diff.Case(backend, t, evgen.gen_events(s, ctx.rng("gt", backend, i), 3), diff.members_used(s, t) + extra, tag={"features": {"guard_template": 2, f"t{i}": 1}}))
    # a member with a declared tree type (double stored as float) at every nesting depth: scratch vectors, branch variables
    # and the casts between them have to agree
    for backend in sch.BACKENDS:
        s = sch.fixed(backend)
        C = s["main"]["coll"]
        for i, t in enumerate([f"ds.Select(lambda e: e.{C}('A').Select(lambda j: j.hits().Select(lambda h: j.ttype())))",
                               f"ds.Select(lambda e: e.{C}('A').Select(lambda j: j.trkPts().Select(lambda t: j.ttype())))",
                               f"ds.Select(lambda e: (e.{C}('A').Select(lambda j: j.ttype()), e.{C}('A').Select(lambda j: j.tracks().Select(lambda t: j.ttype()))))",
                               f"ds.SelectMany(lambda e: e.{C}('A')).Select(lambda j: (j.ttype(), j.hits().Select(lambda h: j.ttype())))"]):
            cases.append(diff.Case(backend, t, evgen.gen_events(s, ctx.rng("tt", backend, i), 3), diff.members_used(s, t), tag={"features": {"tree_type_nesting": 2, f"t{i}": 1}}))
    # the built-in attribute plug-ins: the receiving variable and the instantiated template must agree
    s = sch.fixed("atlas")
    for i, t in enumerate(["ds.SelectMany(lambda e: e.Jets('A')).Select(lambda j: (j.getAttributeVectorFloat('vals').Count(), j.getAttributeFloat('emf')))",
                           "ds.Select(lambda e: e.Jets('A').Select(lambda j: j.getAttributeVectorFloat('vals').Sum()))"]):
        cases.append(diff.Case("atlas", t, evgen.gen_events(s, ctx.rng("ga", i), 2), diff.members_used(s, t), tag={"features": {"builtin_attribute_plugins": 2, f"t{i}": 1}}))
    # column labels outside ASCII: the names minted from them must still be identifiers of the basic source character set
    for backend in sch.BACKENDS:
        s = sch.fixed(backend)
        C = s["main"]["coll"]
        for i, t in enumerate([f"ds.Select(lambda e: {{'Δη': e.{C}('A').Select(lambda j: j.eta()), 'pt_µ': e.{C}('A').Select(lambda j: j.pt()), 'met²': e.{C}('A').Count()}})",
                               f"ResultTTree(ds.SelectMany(lambda e: e.{C}('A')).Select(lambda j: (j.pt(), j.eta())), ['μ_φ', 'ünï'], 'tree', 'f.root')"]):
            cases.append(diff.Case(backend, t, evgen.gen_events(s, ctx.rng("na", backend, i), 2), diff.members_used(s, t), tag={"features": {"non_ascii_labels": 2, f"t{i}": 1}}))
    # a fifth of the packages are produced in a process that has just served the OTHER backends (one service process translating
    # for several experiments): the package must still be this backend's, complete and compilable
    for i, c in enumerate(cases):
        if i % 5 == ctx.seed % 5:
            others = [b for b in sch.BACKENDS if b != c.backend]
            ctx.rng("pre", i).shuffle(others)
            c.pre_queries = [{"backend": b, "query": f"Select(EventDataset(), lambda e: e.{sch.fixed(b)['main']['coll']}('P').Select(lambda j: j.pt()))"} for b in others]
            ctx.count("packages_written_after_other_backends")
    trs = eng.translate(cases, monitors=["vf.props.c02:name_monitor"])
    for c in cases:
        eng.model(c.backend)
    vg_budget = [0 if ctx.quick else 40]

    def work(item):
        case, tr = item
        out: Dict[str, Any] = {"translate": tr}
        if tr["status"] != "ok":
            shutil.rmtree(case._pkg, ignore_errors=True)
            return out
        pkg = Path(case._pkg)
        out["complete"] = completeness(pkg, case.backend, tr["info"], case.full_query())
        try:
            code, cls = code_region(pkg, case.backend)
            out["audit"] = audit_identifiers(code, cls, tr.get("monitor", {}).get("minted", []))
            out["minted"] = len(tr.get("monitor", {}).get("minted", []))
        except Exception as e:
            out["audit_error"] = repr(e)[:200]
        model = eng.model(case.backend)
        jobdir = Path(str(pkg) + "_job")
        inc = jobdir / "inc"
        inc.mkdir(parents=True, exist_ok=True)
        (inc / "c02_inc.h").write_text("// injected include\n")
        (inc / "c02_h1.h").write_text("#pragma once\nstruct C02A { int a = 0; };\n")
        (inc / "c02_h2.h").write_text("#pragma once\nstruct C02B { int b = 0; };\n")
        (inc / "myfunc.h").write_text("// injected include\n")
        # (b) compile with the diagnostics visible (no -w)
        flags = [f for f in edm.BASE_FLAGS if f != "-w"]
        b = cxx.build_job(model, pkg, jobdir)
        out["build"] = b
        if b["ok"]:
            cmd = [edm.CXX, *flags, "-fsyntax-only", "-Wuninitialized", "-Wsometimes-uninitialized", "-Wshadow", "-Wreturn-type", "-I", str(model.inc), "-I", str(inc), str(jobdir / "unity.cxx")]
            r = subprocess.run(cmd, capture_output=True, text=True)
            srcname = "query.cxx" if case.backend == "atlas" else "Analyzer.cc"
            diags = [l for l in r.stderr.splitlines() if srcname in l and "warning:" in l and any(k in l for k in ("uninitialized", "shadows", "return-type", "does not return"))]
            out["diags"] = diags[:5]
            out["dialect"] = cxx.dialect_check(model, jobdir)
            out["dialect_ran"] = True
            evf = jobdir / "ev.txt"
            evf.write_text(edm.serialize_events(model.schema, case.events))
            out["run"] = cxx.run_job(b["exe"], str(evf), len(case.events))
            # a static "uninitialized" diagnostic is only a suspicion (constant-folded dead branches make clang report reads
            # that a preceding throw makes unreachable): the dynamic oracle - memcheck on the real events - decides
            suspicious = any("uninitialized" in d for d in diags)
            if vg_budget[0] > 0 or suspicious:
                vg_budget[0] -= 1
                b2 = cxx.build_job(model, pkg, jobdir / "vg", sanitize=False)
                if b2["ok"]:
                    rr = subprocess.run(["valgrind", "-q", "--error-exitcode=77", "--track-origins=no", b2["exe"], str(evf)], capture_output=True, text=True, timeout=300)
                    out["valgrind"] = {"rc": rr.returncode, "err": [l for l in rr.stderr.splitlines() if "uninitialised" in l][:3]}
        shutil.rmtree(jobdir, ignore_errors=True)
        shutil.rmtree(pkg, ignore_errors=True)
        return out
    results = parallel_map(work, list(zip(cases, trs)))
    for c, r in zip(cases, results):
        ctx.count("evaluations")
        tr = r["translate"]
        if tr["status"] == "raised":
            ctx.count("translations_refused")
            continue
        if tr["status"] != "ok":
            ctx.count("harness_errors")
            continue
        ctx.count("translations_accepted")
        ctx.count("minted_identifiers_audited", r.get("minted", 0))
        why = None
        kind = "complete"
        if r.get("complete"):
            why = r["complete"]
        elif not r["build"]["ok"]:
            kind = "build:" + r["build"]["stage"]
            why = f"emitted package does not {r['build']['stage']}: {r['build']['errors'][:2]}"
        elif r.get("audit"):
            kind = "audit"
            why = "identifier monitor: " + r["audit"]
        elif r.get("dialect"):
            kind = "dialect"
            why = f"accepted by clang++ -std=c++17 but not by g++ -std={cxx.TARGET_STD[c.backend]} (the language level of the release the {c.backend} dataset runs): {r['dialect']}"
        elif r.get("diags"):
            minted_pat = re.compile(r"'(i_obj\d+|aggResult\d+|is_first\d+|bool_op\d+|if_else_result\d+|ntuple\d+|begin\d+|end\d+|r_obj\d+|_\w+\d+|\w+\d+)'")
            mine = [d for d in r["diags"] if minted_pat.search(d) and "uninitialized" not in d]
            if any("uninitialized" in d for d in r["diags"]):
                ctx.count("static_uninitialized_suspicions_sent_to_memcheck")
            if r.get("valgrind") and r["valgrind"]["rc"] == 77 and r["valgrind"]["err"]:
                kind = "valgrind"
                why = f"valgrind: {r['valgrind']['err'][0]}"
            elif mine:
                kind = "diag"
                why = f"compiler diagnostic on a translator-minted identifier: {mine[0][-200:]}"
        elif r.get("valgrind") and r["valgrind"]["rc"] == 77 and r["valgrind"]["err"]:
            kind = "valgrind"
            why = f"valgrind: {r['valgrind']['err'][0]}"
        if "valgrind" in r:
            ctx.count("jobs_under_valgrind")
        if r.get("dialect_ran"):
            ctx.count("jobs_also_compiled_with_gcc_at_target_language_level")
        if "audit_error" in r:
            ctx.notes.append("audit error: " + r["audit_error"])
        if why:
            hit = findings.classify(known, c.query, kind if kind.startswith("build") else "build", why)
            if hit is not None and kind.startswith("build"):
                ctx.known_hits[hit["key"]] += 1
                continue
            ctx.violation(c.replay(), f"[{c.backend}] {why} :: {c.query[:300]}")
            continue
        ctx.count("packages_compiled")
        if r.get("run"):
            ctx.count("sanitizer_reports_ignored_here", sum(1 for x in r["run"]["crashes"] if x.get("sanitizer")))
        ctx.seen(c.backend + "|" + qgen.signature(c.tag["features"]), qgen.nontrivial(c.tag["features"]))
        ctx.sample({"backend": c.backend, "query": c.query[:200], "minted_identifiers": r.get("minted", 0)}, 4)
    if ctx.counters["minted_identifiers_audited"] == 0:
        ctx.inconclusive.append("identifier monitor recorded no minted names")
    return ctx.finish("exploration", RULE, ASSUME)
