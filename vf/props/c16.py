"""C16 - runner.sh honours its flags and never reports success after a failed step.

The three rendered runner.sh scripts run UNMODIFIED in the container model (vf/container.py)
with logging/failing stub tools; the oracle reads exit status, destination contents (RUN id and
BUILD token stamped by the stub job) and the command log.  The flag x fault x history matrix is
enumerated."""
from __future__ import annotations

import json
from pathlib import Path
from typing import Any, Dict, List, Optional, Tuple

from .. import container as ct
from ..core import Ctx, Inconclusive, parallel_map
from ..xlate import run_batch

RULE = ("enumerated: 3 scripts x invocation histories (full; -c then -r several times with own -d/-o; -r without build; bad flags) x "
        "{no fault, each single step failing at each position where it is invoked} x filelist location x pre-populated destination; "
        "distinct = distinct (backend, history, position, flags, failing step); non-trivial = an invocation that reaches at least one tool")
ASSUME = ["stub tools stand for cmake/make/python/mkedanlzr/scram/cmsRun/root/cp/sudo and for the sourced environment scripts; their own exit-status conventions are trusted",
          "mount namespace + chroot stands for the docker container (/scripts read-only, /results, /data)"]

QUERY = {"atlas": "ds.Select(lambda e: e.EventInfo('EventInfo').runNumber())",
         "cms_aod": "ds.Select(lambda e: e.Muons('A').Count())", "cms_miniaod": "ds.Select(lambda e: e.Muons('A').Count())"}
BUILD_TOOLS = {"atlas": ["cmake", "make"], "cms_aod": ["mkedanlzr", "scram"], "cms_miniaod": ["mkedanlzr", "scram"]}
JOB_TOOL = {"atlas": "python", "cms_aod": "cmsRun", "cms_miniaod": "cmsRun"}
STEPS = {"atlas": ["release_setup", "cmake", "make", "externals_setup", "python", "python+late", "sudo"] + [f"cp@{k}" for k in range(1, 7)],
         "cms_aod": ["cms_entrypoint", "mkedanlzr", "scram", "cmsRun", "cmsRun+late", "root", "root+late"] + [f"cp@{k}" for k in range(1, 5)],
         "cms_miniaod": ["cms_entrypoint", "mkedanlzr", "scram", "cmsRun", "cmsRun+late", "root", "root+late"] + [f"cp@{k}" for k in range(1, 5)]}
DEFAULT_LIST = "/data/default1.root\n/data/default2.root\n"


def parse_flags(args: List[str]) -> Dict[str, Any]:
    "reference model of the documented command line"
    o = {"compile": True, "run": True, "d": None, "o": "/results", "rc": None}
    i = 0
    while i < len(args):
        a = args[i]
        if a == "--":
            i += 1
            break
        if not a.startswith("-") or a == "-":
            break
        for j, ch in enumerate(a[1:]):
            if ch == "c":
                o["run"] = False
            elif ch == "r":
                o["compile"] = False
            elif ch in "do":
                rest = a[2 + j:]
                if rest == "":
                    i += 1
                    if i >= len(args):
                        o["rc"] = 10
                        return o
                    rest = args[i]
                o[ch] = rest
                break
            else:
                o["rc"] = 10
                return o
        i += 1
    if i < len(args):
        o["rc"] = 1
    return o


class Scenario:
    def __init__(self, backend: str, name: str, steps: List[Dict[str, Any]], **copts):
        self.backend, self.name, self.steps, self.copts = backend, name, steps, copts


def scenarios(ctx: Ctx, backend: str) -> List[Scenario]:
    S: List[Scenario] = []
    inv = lambda args, fail="", **kw: {"args": args, "fail": fail, **kw}  # noqa: E731
    base = dict(filelist_in_scripts=DEFAULT_LIST)
    S.append(Scenario(backend, "full", [inv([])], **base))
    S.append(Scenario(backend, "build_then_reruns", [inv(["-c"]), inv(["-r"]), inv(["-r", "-d", "/data/second.root"]),
                                                     inv(["-r", "-d", "/data/third.root", "-o", "/results/sub"], mkdirs=["/results/sub"]),
                                                     inv(["-r", "-o", "/results/named.root"]), inv(["-r", "-d", "/data/second.root"])], **base))
    S.append(Scenario(backend, "full_with_d_o", [inv(["-d", "/data/only.root", "-o", "/tmp/outdir"], mkdirs=["/tmp/outdir"])], **base))
    S.append(Scenario(backend, "full_then_rerun", [inv([]), inv(["-r", "-d", "/data/again.root"])], **base))
    S.append(Scenario(backend, "d_values_are_taken_verbatim", [inv(["-c"]), inv(["-r", "-d", "root://eospublic.cern.ch//eos/opendata/f.root"]), inv(["-r", "-d", "https://host.example/data/x.root"]),
                                                               inv(["-r", "-d", "relative/dir/x.root"]), inv(["-r", "-d", "/data/abs.root"]), inv(["-r", "-d", "file:///data/u.root"]),
                                                               inv(["-r", "-d", "/data/DAOD_PHYS%2Fpart.0001.root"]), inv(["-r", "-d", "/data/a%20b%_c.root"]), inv(["-r", "-d", "/data/back\\slash\\n.root"]),
                                                               inv(["-r", "-d", "/data/-n"]), inv(["-r", "-d", "/data/dollar$HOME.root"]),
                                                               # characters the shell would expand or squeeze: the value is a file NAME
                                                               inv(["-r", "-d", "/data/two  blanks.root"]), inv(["-r", "-d", "/data/run[1].root"], mkfiles=["/data/run1.root", "/data/run[1].root"]),
                                                               inv(["-r", "-d", "/data/*.root"], mkfiles=["/data/x.root", "/data/y.root"]), inv(["-r", "-d", "/data/a?.root"], mkfiles=["/data/ab.root"])], **base))
    # -o names a FILE that already exists (left by an earlier job / by someone else): it is replaced by this run's output
    S.append(Scenario(backend, "output_file_already_exists", [inv(["-o", "/results/pre.root"], prepopulate="/results/pre.root"),
                                                              inv(["-r", "-d", "/data/b.root", "-o", "/results/pre.root"]),
                                                              inv(["-r", "-o", "/results/other.root"], prepopulate="/results/other.root")], **base))
    S.append(Scenario(backend, "rerun_without_build", [inv(["-r"])], **base))
    # a second full invocation in the same work area with ANOTHER query's package (its files written before / after the first build)
    S.append(Scenario(backend, "full_then_full_with_other_sources_older", [inv([]), inv([], new_sources="older")], **base))
    S.append(Scenario(backend, "full_then_full_with_other_sources_newer", [inv([]), inv(["-o", "/results/second.root"], new_sources="newer")], **base))
    S.append(Scenario(backend, "build_then_full_with_other_sources", [inv(["-c"]), inv([], new_sources="older"), inv(["-r", "-d", "/data/z.root"])], **base))
    S.append(Scenario(backend, "bad_flags", [inv(["-x"]), inv(["-d"]), inv(["stray"]), inv(["-c", "stray"]), inv(["-r", "-z"]), inv(["-o", "/results", "extra", "args"])], **base))
    S.append(Scenario(backend, "filelist_in_cwd_only", [inv([])], filelist_in_cwd="/data/cwd.root\n"))
    S.append(Scenario(backend, "filelist_both", [inv([])], filelist_in_scripts=DEFAULT_LIST, filelist_in_cwd="/data/cwd.root\n"))
    S.append(Scenario(backend, "filelist_nowhere", [inv([])]))
    # a list written without a final newline (python writelines([name])) - one line and several
    S.append(Scenario(backend, "filelist_without_final_newline", [inv([]), inv(["-r"]), inv(["-r", "-o", "/results/again.root"])], filelist_in_scripts="/data/solo.root"))
    S.append(Scenario(backend, "filelist_two_lines_without_final_newline", [inv([])], filelist_in_scripts="/data/one.root\n/data/two.root"))
    S.append(Scenario(backend, "output_to_missing_dir", [inv(["-o", "/results/missing/dir/"])], **base))
    # single-step failures at every position of the canonical histories
    for step in STEPS[backend]:
        S.append(Scenario(backend, f"fail_{step}_in_full", [inv([], step, prepopulate="/results/ANALYSIS.root")], **base,
                          **({"calib_cache": True} if step == "sudo" else {})))
        S.append(Scenario(backend, f"fail_{step}_in_build_only", [inv(["-c"], step)], **base))
        S.append(Scenario(backend, f"fail_{step}_in_rerun", [inv(["-c"]), inv(["-r", "-d", "/data/a.root"], step, prepopulate="/results/ANALYSIS.root"),
                                                            inv(["-r", "-d", "/data/b.root"])], **base,
                          **({"calib_cache": True} if step == "sudo" else {})))
        S.append(Scenario(backend, f"fail_{step}_in_second_rerun", [inv([]), inv(["-r", "-d", "/data/a.root", "-o", "/results/o.root"]),
                                                                   inv(["-r", "-d", "/data/b.root", "-o", "/results/o.root"], step)], **base))
    if backend == "atlas":
        S.append(Scenario(backend, "calib_cache_present", [inv([])], calib_cache=True, **base))
    S.append(Scenario(backend, "paths_with_spaces", [inv(["-c"]), inv(["-r", "-d", "/data/my file.root"]),
                                                    inv(["-r", "-o", "/results/out dir"], mkdirs=["/results/out dir"])], **base))
    if not ctx.quick:
        for step in STEPS[backend]:
            S.append(Scenario(backend, f"fail_{step}_with_o_dir", [inv(["-o", "/tmp/od"], step, mkdirs=["/tmp/od"], prepopulate="/tmp/od/ANALYSIS.root")], **base))
    return S


def expected_destination(backend: str, o: str, cont: ct.Container) -> str:
    p = cont.root / o.lstrip("/")
    if p.is_dir():
        return o.rstrip("/") + "/ANALYSIS.root"
    return o


def judge(backend: str, sc: Scenario, i: int, step: Dict[str, Any], res: Dict[str, Any], st: Dict[str, Any], cont: ct.Container) -> Optional[str]:
    """Oracle for one invocation; `st` carries the history (built token, ...)"""
    f = parse_flags(step["args"])
    rc = res["rc"]
    tools = [l["tool"] for l in res["log"]]
    job = JOB_TOOL[backend]
    if rc == -999:
        return "INCONCLUSIVE: watchdog"
    if f["rc"] is not None:
        if rc != f["rc"]:
            return f"bad command line {step['args']}: expected exit {f['rc']}, got {rc}"
        if any(t in tools for t in BUILD_TOOLS[backend] + [job]) or res["changed"]:
            return f"bad command line {step['args']}: tools were still run ({tools}) or files delivered {list(res['changed'])}"
        return None
    fail = step["fail"]
    ft = fail.split("@")[0].replace("+late", "")
    fk = int(fail.split("@")[1]) if "@" in fail else None
    n_ft = tools.count(ft)
    injected = bool(fail) and (n_ft >= (fk or 1))
    fresh = {p: cont.read(p) for p in res["changed"]}
    mine = [p for p, t in fresh.items() if t is not None and f"RUN {res['run_id']}" in t]
    if injected:
        if rc == 0:
            return f"step {fail} failed but runner.sh exited 0 (tools: {tools})"
        if res["changed"]:
            return f"step {fail} failed (exit {rc}) but files at the destination were written/changed: {list(res['changed'])}"
        return None
    # no fault reached this invocation
    expect_build_ok = f["compile"] and not st.get("rel_exists")
    if f["compile"] and st.get("rel_exists"):
        # Building again over an existing build area: whether that is possible is not specified by the property (the unchanged
        # scripts stop at their first mkdir).  What IS specified: exit 0 means the output of THIS run's job is at the destination,
        # and "builds and runs" means a job built from the sources delivered with this invocation.
        if rc != 0:
            return f"a failed rebuild delivered files: {list(res['changed'])}" if res["changed"] else None
        if not f["run"]:
            return None
        dest = expected_destination(backend, f["o"], cont)
        out = ct.parse_output(cont.read(dest))
        if out is None or out["run"] != res["run_id"]:
            return f"second build+run in one work area exited 0 but {dest} does not hold this run's output ({out and out['run']})"
        src = cont.pkgcopy / ("query.cxx" if backend == "atlas" else "Analyzer.cc")
        import hashlib
        want = hashlib.md5(src.read_bytes()).hexdigest()[:12]
        if not (out["built"] or "").endswith(want):
            return (f"second build+run in one work area exited 0, but the job that wrote {dest} was built from other sources than the ones delivered with this "
                    f"invocation (build token {out['built']!r}, delivered source hash {want})")
        return None
    filelist_missing = f["run"] and f["d"] is None and sc.copts.get("filelist_in_scripts") is None and sc.copts.get("filelist_in_cwd") is None
    if not f["compile"] and not st.get("built"):
        if rc == 0:
            return f"-r without a previous build exited 0 (tools: {tools})"
        if mine:
            return f"-r without a previous build delivered output {mine}"
        return None
    if f["compile"]:
        if not all(t in tools for t in BUILD_TOOLS[backend]):
            return f"build requested but build tools missing from the command log: {tools}"
    else:
        if any(t in tools for t in BUILD_TOOLS[backend]):
            return f"-r given but build tools ran: {tools}"
    if not f["run"]:
        if job in tools:
            return f"-c given but the analysis job ran: {tools}"
        if rc != 0:
            return f"-c build failed with exit {rc}: {res['stderr'][-200:]}"
        if res["changed"]:
            return f"-c delivered files: {list(res['changed'])}"
        return None
    # run requested
    dest = expected_destination(backend, f["o"], cont)
    dest_parent_ok = (cont.root / dest.lstrip("/")).parent.is_dir()
    if filelist_missing or not dest_parent_ok:
        if rc == 0:
            return f"run cannot succeed ({'no filelist' if filelist_missing else 'destination directory missing'}) but runner.sh exited 0"
        if mine:
            return f"failed run delivered output {mine}"
        return None
    if rc != 0:
        return f"valid invocation {step['args']} failed with exit {rc}: {res['stderr'][-300:]}"
    if tools.count(job) != 1:
        return f"analysis job ran {tools.count(job)} times"
    if f["compile"] and tools.index(job) < max(tools.index(t) for t in BUILD_TOOLS[backend]):
        return "analysis job ran before the build finished"
    out = ct.parse_output(cont.read(dest))
    if out is None:
        return f"exit 0 but nothing at the destination {dest} (changed: {list(res['changed'])})"
    if out["run"] != res["run_id"]:
        return f"exit 0 but the file at {dest} is the output of {out['run']}, not of this run ({res['run_id']})"
    exp_list = [f["d"]] if f["d"] is not None else (sc.copts.get("filelist_in_scripts") or sc.copts.get("filelist_in_cwd")).strip().split("\n")
    if out["filelist"] != exp_list:
        return f"job saw input list {out['filelist']!r}, expected exactly {exp_list!r}"
    if st.get("built_token") and not f["compile"] and out["built"] != st["built_token"]:
        return f"-r ran against build {out['built']!r}, previous build was {st['built_token']!r}"
    if backend != "atlas" and not out["converted"]:
        return "CMS output delivered without the format conversion step"
    others = [p for p in mine if p != dest]
    if others:
        return f"output of this run also written to {others}"
    return None


def run_scenario(item) -> Dict[str, Any]:
    ctx_scratch, pkg, sc, idx = item
    root = Path(ctx_scratch) / f"ct_{sc.backend}_{idx}"
    cont = ct.Container(root, pkg, sc.backend, **sc.copts)
    st: Dict[str, Any] = {}
    out = []
    try:
        for i, step in enumerate(sc.steps):
            for d in step.get("mkdirs", []):
                (cont.root / d.lstrip("/")).mkdir(parents=True, exist_ok=True)
            for f in step.get("mkfiles", []):
                pf = cont.root / f.lstrip("/")
                pf.parent.mkdir(parents=True, exist_ok=True)
                pf.write_text("data")
            if step.get("prepopulate"):
                p = cont.root / step["prepopulate"].lstrip("/")
                p.parent.mkdir(parents=True, exist_ok=True)
                if not p.exists():
                    p.write_text("RUN old\nOLD OUTPUT\n")
            if step.get("new_sources"):
                # another query's package is delivered: same file names, other content, time stamps before / after the first build
                import os
                for fn in ("query.cxx", "query.h", "Analyzer.cc", "ATestRun_eljob.py", "analyzer_cfg.py"):
                    pf = cont.pkgcopy / fn
                    if pf.exists():
                        pf.write_text(pf.read_text() + ("\n# other query\n" if fn.endswith(".py") else "\n// other query\n"))
                        if step["new_sources"] == "older":
                            os.utime(pf, (1_000_000_000, 1_000_000_000))
            res = cont.invoke(step["args"], step["fail"])
            why = judge(sc.backend, sc, i, step, res, st, cont)
            # history bookkeeping from what the job itself reported
            tools = [l["tool"] for l in res["log"]]
            if (cont.root / "work" / ("rel" if sc.backend == "atlas" else "analysis")).exists():
                st["rel_exists"] = True
            if res["rc"] == 0 and all(t in tools for t in BUILD_TOOLS[sc.backend]):
                st["built"] = True
                bt = list((cont.root / "work").rglob("built.token"))
                st["built_token"] = bt[0].read_text().strip() if bt else None
            out.append({"step": i, "args": step["args"], "fail": step["fail"], "rc": res["rc"], "tools": tools, "why": why,
                        "changed": list(res["changed"]), "stderr": res["stderr"][-300:] if why else ""})
    finally:
        cont.destroy()
    return {"scenario": sc.name, "backend": sc.backend, "steps": out}


def run(ctx: Ctx) -> int:
    if not ct.unshare_available():
        raise Inconclusive("unshare -m refused: the container model cannot run")
    reqs = [{"args": {"backend": b, "query": QUERY[b], "out": str(ctx.scratch / f"pkg_{b}")}} for b in QUERY]
    trs = run_batch(reqs, ctx.scratch)
    items = []
    only = None
    if ctx.replay:
        only = json.loads(Path(ctx.replay).read_text())["case"]
    for (b, _), tr in zip(QUERY.items(), trs):
        if tr["status"] != "ok":
            raise Inconclusive(f"cannot render the {b} package: {tr}")
        for k, sc in enumerate(scenarios(ctx, b)):
            if only and (only["backend"] != b or only["scenario"] != sc.name):
                continue
            items.append((str(ctx.scratch), ctx.scratch / f"pkg_{b}", sc, k))
    results = parallel_map(run_scenario, items)
    kb = [f for f in ctx.known_entries() if f.get("classifier") == "c16_output_path_with_blank"]
    known_blank = kb[0] if kb else None
    for r in results:
        for s in r["steps"]:
            ctx.count("evaluations")
            ctx.count("tool_invocations_logged", len(s["tools"]))
            if s["fail"] and s["rc"] != 0:
                ctx.count("injected_failures_observed")
            if s["why"] and s["why"].startswith("INCONCLUSIVE"):
                ctx.inconclusive.append(f"{r['backend']}/{r['scenario']}: {s['why']}")
            elif s["why"] and known_blank and any(" " in a for a in s["args"]) and "-o" in s["args"] and s["why"].startswith("valid invocation") and s["rc"] != 0 and not s["changed"]:
                ctx.known_hits[known_blank["key"]] += 1
                ctx.known_finding(known_blank["key"], f"{known_blank['mechanism'][:150]} [witness: {r['backend']} runner.sh {' '.join(s['args'])!r} -> exit {s['rc']}]")
            elif s["why"]:
                ctx.violation({"backend": r["backend"], "scenario": r["scenario"], "step": s["step"], "args": s["args"], "fail": s["fail"]},
                              f"[{r['backend']}] scenario {r['scenario']} step {s['step']} args={s['args']} fail={s['fail']!r}: {s['why']} {s['stderr'][-200:]}")
            else:
                ctx.seen((r["backend"], r["scenario"], s["step"]), bool(s["tools"]))
        if len(r["steps"]) > 1:
            ctx.sample({"backend": r["backend"], "scenario": r["scenario"], "steps": [{k: s[k] for k in ("args", "fail", "rc", "tools")} for s in r["steps"]]}, 4)
    return ctx.finish("fault_enumeration", RULE, ASSUME, exhaustive=True)
