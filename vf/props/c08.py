"""C08 - translation is invariant under wire format, bound names, metadata position and
equivalent chaining.  Every generated query is rewritten by meaning-preserving variant
generators (vf/variants.py); all variants must be accepted/refused alike and render the same
name-normalised package.  A sample of renamed variants is also executed under C01's oracle."""
from __future__ import annotations

import ast
import json
import re
from pathlib import Path
from typing import Any, Dict, List, Optional, Tuple

from .. import diff, evgen, qgen, schema as sch, variants as V
from ..core import Ctx
from ..xlate import run_batch
from . import common
from .c07 import normalise

RULE = ("qgen queries x variants {qastle round trip, alpha-renaming with hostile names (capture-avoiding), MetaData re-attached at every other point of the main chain, "
        "Select.Select / Where.Where fused, method<->function call style}; distinct = distinct (backend, operator multiset, variant kind); non-trivial = at least 2 operators")
ASSUME = ["comparison is on all rendered files after renumbering identifiers that end in digits by first occurrence",
          "the query text quoted inside the First() error message is masked (it legitimately shows the caller's parameter names)",
          "variants qastle itself cannot express are skipped (counted)"]

FILES = {"atlas": ["query.cxx", "query.h", "package_CMakeLists.txt", "ATestRun_eljob.py"], "cms_aod": ["Analyzer.cc"], "cms_miniaod": ["Analyzer.cc"]}
_FIRSTMSG = re.compile(r'(First\(\) called on an empty sequence) \(.*\)"\);')


def package_text(out: Path, backend: str) -> str:
    txt = "\n".join(f"=== {f}\n" + (out / f).read_text() for f in FILES[backend])
    return normalise(_FIRSTMSG.sub(r'\1 (...)");', txt))


ARG_N_KNOWN = [False]


def qastle_faithful(q: str) -> bool:
    """qastle text can only carry binary boolean operators and no unary plus ...: the round trip
    then hands the translator a DIFFERENT query.  The wire-format variant is only meaningful for
    queries the wire format represents faithfully (same AST shape after the round trip)."""
    import qastle
    from ..xlate import parse_query
    try:
        a = parse_query(q)
        b = qastle.text_ast_to_python_ast(qastle.python_ast_to_text_ast(a)).body[0].value
    except Exception:
        return True  # inexpressible: handled (counted) when the variant is translated
    return ast.dump(a) == ast.dump(b)


def with_user_functions(R, backend: str, text: str) -> Tuple[str, List[Dict[str, Any]]]:
    """wrap numeric member calls into injected C++ functions: one function-style, and ONE method-style function used at
    up to three call sites (on different lambda variables where the query has them)"""
    hits = list(re.finditer(r"(\bv\d+)\.(pt|eta|phi|m)\(\)", text))
    if not hits:
        return text, []
    cls = {"atlas": "xAOD::Jet", "cms_aod": "reco::Muon", "cms_miniaod": "pat::Muon"}[backend]
    acc = "->" if backend == "atlas" else "."
    md: List[Dict[str, Any]] = []
    chosen = R.sample(hits, min(len(hits), R.choice([1, 2, 3, 4])))
    chosen.sort(key=lambda h: -h.start())
    fn_done = False
    for k, h in enumerate(chosen):
        if not fn_done and R.random() < 0.35:
            text = text[:h.start()] + f"UserSq({h.group(0)})" + text[h.end():]
            fn_done = True
        else:
            text = text[:h.start()] + f"{h.group(1)}.MScale({R.choice(['1.5', '2.0', h.group(1) + '.eta()'])})" + text[h.end():]
    if "UserSq(" in text:
        md.append({"metadata_type": "add_cpp_function", "name": "UserSq", "include_files": ["cmath", "vector"], "arguments": ["x"], "code": ["auto result = x * x + 1.0;"], "return_type": "double"})
    if ".MScale(" in text:
        md.append({"metadata_type": "add_cpp_function", "name": "MScale", "include_files": ["cmath"], "arguments": ["f"], "code": [f"auto result = obj_m{acc}pt() * f;"], "return_type": "double",
                   "method_object": "obj_m", "instance_object": cls})
    return text, md


def make_variants(ctx: Ctx, q: str, md: List[Dict[str, Any]], R, allow_fused: bool = True) -> List[Tuple[str, str, str]]:
    """[(kind, query text, wire)] ; the base query text has metadata attached at the dataset."""
    full = diff.attach_metadata(q, md)
    tree = V.parse(full)
    out = [("base", full, "ast")]
    if qastle_faithful(full):
        out.append(("qastle", full, "qastle"))
    else:
        ctx.count("qastle_not_faithful_skipped")
    pool = [h for h in V.HOSTILE if not (ARG_N_KNOWN[0] and re.fullmatch(r"arg_\d+", h))]
    for k in range(2):
        t, n = V.alpha_rename(tree, R, pool)
        if n:
            out.append(("alpha", ast.unparse(t), "ast"))
    # the two extremes: every parameter gets the SAME name wherever the side condition allows it (siblings, non-capturing
    # nesting), and every parameter gets its own name
    t, n = V.alpha_rename(tree, R, ["zz"])
    if n:
        out.append(("alpha_all_same", ast.unparse(t), "ast"))
    # ... and the same with the names func_adl's own rewrites bind: the aggregate shortcuts (Count/Sum/Min/Max become
    # Aggregate(.., lambda acc, v: ..)) and the simplifier's minted parameters (arg_<n>; a twice-bound `arg` is renamed by the translator)
    for nm in ("acc", "v", "arg"):
        t, n = V.alpha_rename(tree, R, [nm])
        if n:
            out.append((f"alpha_all_{nm}", ast.unparse(t), "ast"))
    t, n = V.alpha_rename_distinct(tree)
    if n:
        out.append(("alpha_all_distinct", ast.unparse(t), "ast"))
    out.append(("style_function", ast.unparse(V.to_style(tree, "function")), "ast"))
    out.append(("style_method", ast.unparse(V.to_style(tree, "method")), "ast"))
    ft, n = V.fuse(tree)
    if n and allow_fused:
        out.append(("fused", ast.unparse(ft), "ast"))
    stripped, mds = V.strip_metadata(tree)
    if mds:
        L = V.chain_length(stripped)
        for d in range(0, L + 1):
            out.append((f"metadata_at_{d}", ast.unparse(V.place_metadata(stripped, mds, d)), "ast"))
        if len(mds) > 1:
            # the blocks in the opposite order, and split between the two ends of the chain
            out.append(("metadata_reversed", ast.unparse(V.place_metadata(stripped, mds[::-1], L)), "ast"))
            half = len(mds) // 2
            out.append(("metadata_split", ast.unparse(V.place_metadata(V.place_metadata(stripped, mds[half:], L), mds[:half], 0)), "ast"))
        # metadata riding on expressions INSIDE the query: on a collection call (how helper libraries send it), and on a
        # tuple element the rest of the query never uses
        for kind, f in (("metadata_on_inner_collection", V.metadata_on_inner_collection), ("metadata_on_discarded_element", V.metadata_on_discarded_element)):
            t = f(stripped, mds)
            if t is not None:
                out.append((kind, ast.unparse(t), "ast"))
        tt, nt = V.metadata_lists_as_tuples(tree)
        if nt:
            out.append(("metadata_lists_as_tuples", ast.unparse(tt), "ast"))
    return out


def run(ctx: Ctx) -> int:
    n = ctx.pick(300, 4000)
    opts = common.gen_options(ctx)
    karg = [f for f in ctx.known_entries() if f.get("classifier") == "c08_arg_n_param"]
    ARG_N_KNOWN[0] = bool(karg)
    groups = []
    if ctx.replay:
        rep = json.loads(Path(ctx.replay).read_text())["case"]
        groups.append((rep["backend"], {"query": rep["base"], "features": {"replay": 2, "x": 2}}, [tuple(v) for v in rep["variants"]]))
    else:
        for backend in sch.BACKENDS:
            s = sch.fixed(backend)
            for i in range(n // 3):
                R = ctx.rng("c08", backend, i)
                g = qgen.QGen(s, R, **opts)
                try:
                    q = g.query(R.choice([1, 2, 3]))
                except qgen.CannotGenerate:
                    continue
                md = diff.members_used(s, q["query"])
                umd: List[Dict[str, Any]] = []
                if R.random() < 0.3:
                    q = dict(q)
                    q["query"], umd = with_user_functions(R, backend, q["query"])
                    md = md + umd
                    if umd:
                        ctx.count("queries_with_injected_functions")
                if R.random() < 0.3:
                    # registered namespaces (define_enum) must not capture a lambda parameter that happens to carry their name
                    md = md + [{"metadata_type": "define_enum", "namespace": "xAOD.Jet", "name": "Color", "values": ["Red", "Blue"]},
                               {"metadata_type": "define_enum", "namespace": "Trig", "name": "Bits", "values": ["A", "B"]}]
                # fusion is an extra beyond the property's wording; its TEXT is only comparable where every sub-expression is
                # emitted once, which does not hold for injected code (one block per evaluation of the call)
                groups.append((backend, q, make_variants(ctx, q["query"], md, R, allow_fused=not umd)))
    # an enum and a method returning it, declared in either order / at either end
    if not ctx.replay:
        en = {"metadata_type": "define_enum", "namespace": "xAOD.Jet", "name": "Color", "values": ["Red", "Blue"]}
        for k, mt in enumerate([{"metadata_type": "add_method_type_info", "type_string": "xAOD::Jet", "method_name": "color", "return_type": "xAOD::Jet::Color"},
                                {"metadata_type": "add_method_type_info", "type_string": "xAOD::Jet", "method_name": "color", "return_type": "xAOD::Jet::Color", "tree_type": "int"}]):
            for body in ("e.Jets('A').Select(lambda j: j.color())", "e.Jets('A').Where(lambda j: j.color() == xAOD.Jet.Color.Red).Count()"):
                q0 = f"ds.Select(lambda e: {body})"
                groups.append(("atlas", {"query": q0, "features": {"enum_method_order": 2, f"k{k}": 1, "x": 1}}, make_variants(ctx, q0, [en, mt], ctx.rng("c08enum", k, body))))
    # an aggregate shortcut (it becomes a lambda of func_adl's own: `lambda acc, v: ...`) inside a step that the simplifier
    # merges with its neighbour (Where.Where, Select.Select, SelectMany then Where / Select): the user's names against func_adl's
    if not ctx.replay:
        for backend in sch.BACKENDS:
            s = sch.fixed(backend)
            C = s["main"]["coll"]
            T = [f"ds.Select(lambda e: e.{C}('A').Where(lambda a: a.trkPts().Sum() > 10).Where(lambda b: b.pt() > 5).Select(lambda c: c.pt()))",
                 f"ds.Select(lambda e: e.{C}('A').Where(lambda a: a.pt() > 5).Where(lambda b: b.trkPts().Count() > 1).Select(lambda c: c.trkPts().Max()))",
                 f"ds.Select(lambda e: e.{C}('A').Select(lambda a: a.trkPts()).Select(lambda b: b.Sum()))",
                 f"ds.Select(lambda e: e.{C}('A').Select(lambda a: (a.trkPts().Count(), a)).Select(lambda b: b[1].pt() * b[0]))",
                 f"ds.SelectMany(lambda e: e.{C}('A')).Where(lambda a: a.trkPts().Min() < 20).Select(lambda b: b.trkPts().Sum() + b.pt())",
                 f"ds.Where(lambda e: e.{C}('A').Count() > 1).Where(lambda f: f.{C}('B').Select(lambda a: a.pt()).Sum() > 1).Select(lambda g: g.{C}('A').Count())",
                 f"ds.Select(lambda e: e.{C}('A').SelectMany(lambda a: a.trkPts()).Where(lambda b: b > 2).Count())",
                 f"ds.Select(lambda e: e.{C}('A').Select(lambda a: a.tracks().Where(lambda t: t.pt() > a.trkPts().Sum()).Where(lambda u: u.pt() < a.pt()).Count()))"]
            for k, q0 in enumerate(T):
                groups.append((backend, {"query": q0, "features": {"shortcut_in_merged_step": 2, f"k{k}": 1, "x": 1}},
                               make_variants(ctx, q0, diff.members_used(s, q0), ctx.rng("c08short", backend, k))))
    # chained steps whose handed-over value is used ONCE, with a plug-in call / First() / a nested aggregate in the first step and a
    # terminal that does or does not look at the values: the separately written and the hand-fused spelling are the same query
    if not ctx.replay:
        for backend in sch.BACKENDS:
            s = sch.fixed(backend)
            C = s["main"]["coll"]
            firsts = [("DeltaR(j.eta(), j.phi(), 0.0, 0.0)", "d"), ("j.trkPts().First()", "v"), ("j.trkPts().Count()", "n"), ("j.trkPts().Sum()", "u")]
            if backend == "atlas":
                firsts.append(("j.getAttributeFloat('w')", "w"))
            tails = [".Count()", ".Sum()", ".Where(lambda z: z > 1.0).Count()", ".Select(lambda z: z)"]
            k = 0
            for fexpr, v in firsts:
                for tail in tails:
                    k += 1
                    sep = f"ds.Select(lambda e: e.{C}('A').Select(lambda j: {fexpr}).Select(lambda {v}: {v} * 2){tail})"
                    fus = f"ds.Select(lambda e: e.{C}('A').Select(lambda j: {fexpr} * 2){tail})"
                    md = diff.members_used(s, sep)
                    groups.append((backend, {"query": sep, "features": {"single_use_chain_with_plugin_or_partial_step": 2, f"k{k}": 1, "x": 1}},
                                   [("base", diff.attach_metadata(sep, md), "ast"), ("fused_by_hand", diff.attach_metadata(fus, md), "ast")]))
    for f in karg:
        w = f["witness"]
        groups.append((w["backend"], {"query": w["base"], "features": {"witness": 2, "w": 2}, "witness_of": f},
                       [("base", w["base"], "ast"), ("alpha", w["variant"], "ast")]))
    # witnesses of repaired findings are ordinary regression groups
    for f in ctx._findings:
        w = f.get("witness") or {}
        if f["status"] == "fixed" and f["property"] == "C08" and w.get("kind") == "c08" and not ctx.replay:
            groups.append((w["backend"], {"query": w["base"], "features": {"regression_" + f["key"]: 2, "w": 2}}, [("base", w["base"], "ast"), ("alpha", w["variant"], "ast")]))
            ctx.count("fixed_witnesses_rerun")
    reqs, index = [], []
    for gi, (backend, q, vs) in enumerate(groups):
        for vi, (kind, text, wire) in enumerate(vs):
            reqs.append({"args": {"backend": backend, "query": text, "out": str(ctx.scratch / f"g{gi}_{vi}"), "wire": wire}})
            index.append((gi, vi))
    res = run_batch(reqs, ctx.scratch)
    by_group: Dict[int, List[Any]] = {}
    for (gi, vi), r, rq in zip(index, res, reqs):
        by_group.setdefault(gi, []).append((vi, r, rq))
    for gi, (backend, q, vs) in enumerate(groups):
        rs = sorted(by_group.get(gi, []))
        base = rs[0][1]
        if base["status"] not in ("ok", "raised"):
            ctx.count("harness_errors")
            continue
        base_txt = package_text(Path(rs[0][2]["args"]["out"]), backend) if base["status"] == "ok" else None
        for vi, r, rq in rs[1:]:
            kind = vs[vi][0]
            ctx.count("evaluations")
            if r["status"] not in ("ok", "raised"):
                ctx.count("harness_errors")
                continue
            if kind == "qastle" and r["status"] == "raised" and r["exc"]["where"].startswith(("transform.py", "ast_util.py", "parse.py", "linq_util.py", "xlate.py")):
                ctx.count("qastle_inexpressible")
                continue
            case = {"backend": backend, "base": vs[0][1], "variants": [vs[0], vs[vi]]}
            if "witness_of" in q:
                f = q["witness_of"]
                if r["status"] != base["status"] or (r["status"] == "ok" and package_text(Path(rq["args"]["out"]), backend) != base_txt):
                    ctx.known_finding(f["key"], f["mechanism"][:170] + f" [witness: {vs[vi][1][:120]} -> {r['status']} {r.get('exc', {}).get('type', '')}]")
                else:
                    ctx.notes.append(f"known finding {f['key']}: witness no longer fails")
                continue
            if r["status"] != base["status"]:
                a = f"{base['status']} {base.get('exc', {}).get('type', '')}: {base.get('exc', {}).get('msg', '')[:120]}"
                b = f"{r['status']} {r.get('exc', {}).get('type', '')}: {r.get('exc', {}).get('msg', '')[:120]}"
                ctx.violation(case, f"[{backend}] variant {kind}: base query is {a} but the variant is {b} :: base={vs[0][1][:300]} :: variant={vs[vi][1][:300]}")
                continue
            if r["status"] == "ok":
                txt = package_text(Path(rq["args"]["out"]), backend)
                if txt != base_txt:
                    a, b = base_txt.splitlines(), txt.splitlines()
                    where = next((f"line {i}: {x.strip()!r} vs {y.strip()!r}" for i, (x, y) in enumerate(zip(a, b)) if x != y), f"length {len(a)} vs {len(b)}")
                    ctx.violation(case, f"[{backend}] variant {kind} renders a different package: {where} :: base={vs[0][1][:300]} :: variant={vs[vi][1][:300]}")
                    continue
            ctx.count("variant_" + kind.split("_at_")[0])
            ctx.seen((backend, qgen.signature(q["features"]), kind.split("_at_")[0]), qgen.nontrivial(q["features"]))
        if len(vs) > 3:
            ctx.sample({"backend": backend, "base": vs[0][1][:200], "variant_kinds": [v[0] for v in vs], "an_alpha_variant": next((v[1][:200] for v in vs if v[0] == "alpha"), None)}, 3)
    # execute a sample of renamed variants: a capture bug that changes both texts alike would still be seen
    eng = diff.Engine(ctx)
    judge = common.Judge(ctx, eng, tolerated_refusal=lambda c, r: True, max_shrinks=0)
    sample = []
    for gi, (backend, q, vs) in enumerate(groups):
        alphas = [v for v in vs if v[0] == "alpha"]
        if alphas and len(sample) < ctx.pick(45, 500) and by_group[gi][0][1]["status"] == "ok":
            evs = evgen.gen_events(sch.fixed(backend), ctx.rng("c08ev", gi), 6)
            sample.append(diff.Case(backend, alphas[0][1], evs, [], tag=q, note="alpha-renamed variant"))
    # Steps written separately whose later step uses the handed-over value MORE THAN ONCE: func_adl fuses them by sharing one
    # AST node between the uses, the hand-fused spelling repeats the text.  The two packages may legitimately differ as text
    # (one evaluation vs. two), so both spellings are EXECUTED and must write the rows the query denotes.
    if not ctx.replay:
        for backend in sch.BACKENDS:
            s = sch.fixed(backend)
            C = s["main"]["coll"]
            pairs = [(f"ds.Select(lambda e: e.{C}('A').Select(lambda j: j.pt() / 8.0)).Select(lambda pts: (pts.Where(lambda p: p > 3.0).Sum(), pts.Where(lambda q: q > 6.0).Sum()))",
                      f"ds.Select(lambda e: (e.{C}('A').Select(lambda j: j.pt() / 8.0).Where(lambda p: p > 3.0).Sum(), e.{C}('A').Select(lambda j: j.pt() / 8.0).Where(lambda q: q > 6.0).Sum()))"),
                     (f"ds.SelectMany(lambda e: e.{C}('A')).Select(lambda j: j.pt() / 8.0).Select(lambda p: (p if p > 4.0 else 0.0, p))",
                      f"ds.SelectMany(lambda e: e.{C}('A')).Select(lambda j: (j.pt() / 8.0 if j.pt() / 8.0 > 4.0 else 0.0, j.pt() / 8.0))"),
                     (f"ds.SelectMany(lambda e: e.{C}('A')).Select(lambda j: j.trkPts().Count()).Select(lambda n: (n * 2 if n > 1 else -1, n, n + 1))",
                      f"ds.SelectMany(lambda e: e.{C}('A')).Select(lambda j: (j.trkPts().Count() * 2 if j.trkPts().Count() > 1 else -1, j.trkPts().Count(), j.trkPts().Count() + 1))"),
                     (f"ds.Select(lambda e: e.{C}('A').Where(lambda j: j.pt() > 30.0)).Select(lambda g: (g.Count(), g.Select(lambda j: j.eta()), g.Select(lambda j: j.pt()).Sum()))",
                      f"ds.Select(lambda e: (e.{C}('A').Where(lambda j: j.pt() > 30.0).Count(), e.{C}('A').Where(lambda j: j.pt() > 30.0).Select(lambda j: j.eta()), e.{C}('A').Where(lambda j: j.pt() > 30.0).Select(lambda j: j.pt()).Sum()))"),
                     (f"ds.Select(lambda e: e.{C}('A').Select(lambda j: j.trkPts().Sum())).Select(lambda ss: ss.Select(lambda x: x if e_ok(x) else 0.0))".replace("e_ok(x)", "x > 50.0"),
                      f"ds.Select(lambda e: e.{C}('A').Select(lambda j: j.trkPts().Sum() if j.trkPts().Sum() > 50.0 else 0.0))"),
                     (f"ds.SelectMany(lambda e: e.{C}('A')).Select(lambda j: j.tracks()).Select(lambda ts: (ts.Count(), ts.Where(lambda t: t.pt() > 20.0).Count(), ts.Select(lambda t: t.pt())))",
                      f"ds.SelectMany(lambda e: e.{C}('A')).Select(lambda j: (j.tracks().Count(), j.tracks().Where(lambda t: t.pt() > 20.0).Count(), j.tracks().Select(lambda t: t.pt())))")]
            for k, (sep, fused) in enumerate(pairs):
                for form, text in (("separate", sep), ("hand_fused", fused)):
                    evs = evgen.gen_events(s, ctx.rng("c08multi", backend, k), 6)
                    sample.append(diff.Case(backend, text, evs, diff.members_used(s, text), tag={"query": text, "features": {"handed_over_value_used_twice": 2, form: 1, f"k{k}": 1}},
                                            note=f"handed-over value used more than once, {form} spelling"))
                    ctx.count("multi_use_spellings_executed")
    if sample:
        before = ctx.counters["evaluations"]
        diff.differential(ctx, eng, sample, judge.on_result)
        ctx.counters["renamed_variants_executed"] = ctx.counters["evaluations"] - before
        judge.settle()
    return ctx.finish("exploration", RULE, ASSUME)
