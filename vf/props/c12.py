"""C12 - every documented math function is accepted and computes its namesake.

The function list is parsed from README.md and cross-checked with the translator's table.
Each function is evaluated by a compiled job at sample points (event data and literals),
standalone and inside larger arithmetic, and compared with the C library function of the same
name called through ctypes (vf/refrt.py MATHFN)."""
from __future__ import annotations

import json
import re
from pathlib import Path
from typing import Any, Dict, List, Optional, Tuple

from .. import diff, evgen, refrt, schema as sch, shrink
from ..core import REPO, Ctx
from . import common

RULE = ("exhaustive over the README's math-function list x forms {standalone, f(x)+1, 2*f(x), f(x)/2, g(f(x)), literal argument; per-object rows and, for standalone / 2*f(x), the first object of the event at event level} x argument values drawn from event data inside the function's domain; "
        "distinct = distinct (backend, function, form); non-trivial = every cell")
ASSUME = ["'the function of that name' = the C library symbol (libm via ctypes); ln = log; builtin abs/pow", "NaN == NaN for the comparison; relative tolerance 1e-9"]


def documented_functions() -> List[str]:
    txt = (REPO / "README.md").read_text()
    m = re.search(r"Math functions are pulled from the C\+\+ \[`cmath` library\]\([^)]*\): (.*?)\.\n", txt, re.S)
    return re.findall(r"`(\w+)`", m.group(1)) if m else []


# argument expressions per function: x = j.pt() (about -20..80), y = j.eta()
POS = "(abs(j.pt()) + 0.5)"
UNIT = "(j.eta() / 128.0)"
SMALL = "(j.eta() / 8.0)"
ARGS: Dict[str, List[str]] = {
    "acos": [UNIT], "asin": [UNIT], "atanh": [UNIT], "acosh": [f"({POS} + 1.0)"], "log": [POS], "ln": [POS], "log10": [POS], "log2": [POS], "log1p": [POS], "sqrt": [POS],
    "exp": [SMALL], "exp2": [SMALL], "expm1": [SMALL], "sinh": [SMALL], "cosh": [SMALL], "tgamma": [f"({POS} / 16.0)"], "lgamma": [f"({POS} / 4.0)"],
    "atan2": ["j.eta()", "j.pt()"], "pow": [POS, SMALL], "hypot": ["j.pt()", "j.eta()"], "fmod": ["j.pt()", "3.0"], "remainder": ["j.pt()", "3.0"], "remquo": ["j.pt()", "3.0"],
    "copysign": ["j.pt()", "j.eta()"], "nextafter": ["j.pt()", "j.eta()"], "nexttoward": ["j.pt()", "j.eta()"], "fdim": ["j.pt()", "j.eta()"], "fmax": ["j.pt()", "j.eta()"],
    "fmin": ["j.pt()", "j.eta()"], "ldexp": ["j.pt()", "3"], "scalbn": ["j.pt()", "2"], "scalbln": ["j.pt()", "2"], "fma": ["j.pt()", "j.eta()", "0.5"], "nan": ["''"],
    "ilogb": [POS],
}
LIT: Dict[str, List[str]] = {"atan2": ["1.0", "2.0"], "pow": ["2.0", "3.0"], "hypot": ["3.0", "4.0"], "fmod": ["7.5", "2.0"], "remainder": ["7.5", "2.0"], "remquo": ["7.5", "2.0"],
                             "copysign": ["2.0", "-1.0"], "nextafter": ["1.0", "2.0"], "nexttoward": ["1.0", "2.0"], "fdim": ["5.0", "3.0"], "fmax": ["1.0", "2.0"], "fmin": ["1.0", "2.0"],
                             "ldexp": ["1.5", "3"], "scalbn": ["1.5", "2"], "scalbln": ["1.5", "2"], "fma": ["2.0", "3.0", "0.5"], "nan": ["''"], "acosh": ["2.0"], "tgamma": ["4.5"]}


def cells(fns: List[str]) -> List[Dict[str, Any]]:
    C = []
    for f in fns:
        args = ARGS.get(f, ["j.pt()"])
        call = f"{f}({', '.join(args)})"
        lit = f"{f}({', '.join(LIT.get(f, ['0.5']))})"
        C.append({"id": f"{f}:standalone", "fn": f, "expr": call})
        C.append({"id": f"{f}:plus1", "fn": f, "expr": f"({call} + 1)"})
        C.append({"id": f"{f}:times2", "fn": f, "expr": f"(2 * {call})"})
        C.append({"id": f"{f}:half", "fn": f, "expr": f"({call} / 2)"})
        if f != "nan":
            C.append({"id": f"{f}:composed", "fn": f, "expr": f"sqrt(abs({call}))"})
            C.append({"id": f"{f}:times_member", "fn": f, "expr": f"({call} * j.eta() - {call})"})
        C.append({"id": f"{f}:literal", "fn": f, "expr": lit})
        if f in ("ceil", "floor", "trunc", "round", "rint", "nearbyint", "fabs", "abs", "fmax", "fmin", "fdim", "copysign", "hypot", "cbrt", "sqrt"):
            # results beyond the int range: a function whose result is stored or typed as an int would wrap
            big = [a if i else f"({a} * 100000000.0 + 0.5)" for i, a in enumerate(args)]
            C.append({"id": f"{f}:large", "fn": f, "expr": f"{f}({', '.join(big)})"})
        if f in ("pow", "sqrt", "cbrt", "exp2", "log2", "fabs", "abs", "floor", "ceil", "hypot", "fmax", "fmin", "atan2", "fmod", "ldexp", "sin", "log1p"):
            # integer-typed arguments (a count, a method declared int, integer literals): the call and everything computed from
            # it is floating arithmetic, as in C and in Python
            iargs = {"pow": ["(j.nTrk() + 1)", "2"], "hypot": ["j.nTrk()", "j.hits().Count()"], "fmax": ["j.nTrk()", "3"], "fmin": ["j.nTrk()", "3"], "atan2": ["j.nTrk()", "2"],
                     "fmod": ["(j.nTrk() + 7)", "4"], "ldexp": ["(j.nTrk() + 1)", "3"]}.get(f, ["(j.nTrk() + 1)"])
            icall = f"{f}({', '.join(iargs)})"
            C.append({"id": f"{f}:int_args_div", "fn": f, "expr": f"({icall} / 8)"})
            C.append({"id": f"{f}:int_args_div_count", "fn": f, "expr": f"({icall} / (j.hits().Count() + 2))"})
            if f == "pow":
                C.append({"id": "pow:int_base_exponents", "fn": f, "expr": "(pow(j.nTrk() + 1, 2.0) / 8 + pow(j.hits().Count() + 1, 3) / 16 + pow(j.nTrk() + 1, 2) * 0.5)"})
                C.append({"id": "pow:large_int_base", "fn": f, "expr": "pow(j.nTrk() * 10000 + 50000, 2)"})
    for f in fns:
        args = ARGS.get(f, ["j.pt()"])
        if len(args) < 2 or f in ("remquo",):
            continue
        # arguments that live at DIFFERENT depths of the generated code: the first from an inner loop and the rest from the
        # enclosing one (and the other way round); a literal first argument inside a conditional arm / behind `and`.
        # The order of the arguments is the order written.
        int_second = f in ("ldexp", "scalbn", "scalbln")
        inner0 = f"{f}({', '.join(['t'] + args[1:])})"
        C.append({"id": f"{f}:first_arg_from_inner_loop", "fn": f, "expr": f"j.trkPts().Select(lambda t: {inner0})"})
        if not int_second:
            inner1 = f"{f}({', '.join([args[0], 't'] + args[2:])})"
            C.append({"id": f"{f}:second_arg_from_inner_loop", "fn": f, "expr": f"j.trkPts().Select(lambda t: {inner1})"})
        lit0 = f"{f}({', '.join(['2.5'] + args[1:])})"
        C.append({"id": f"{f}:literal_first_in_conditional_arm", "fn": f, "expr": f"({lit0} if j.pt() > 20.0 else 1.0)"})
        C.append({"id": f"{f}:literal_first_behind_and", "fn": f, "expr": f"(j.pt() > 20.0 and {lit0} > 1.0)"})
    for f in fns:
        if f in ("nan", "remquo"):
            continue
        lit = f"{f}({', '.join(LIT.get(f, ['2.5']))})"
        # a call on literals only, then divided / taken modulo by an integer: still floating arithmetic
        C.append({"id": f"{f}:literal_div", "fn": f, "expr": f"({lit} / 2 + {lit} / (j.hits().Count() + 2))"})
    for f in ("pow", "atan2", "fmod", "hypot", "sqrt", "fabs", "floor", "exp", "log", "fmax", "copysign", "ldexp"):
        # a float-declared argument (24 bits) beside an int / a double: the function computes in double, the result is a double
        fa = {"pow": ["j.width() * 1000.0 + 0.567", "2"], "atan2": ["j.width()", "3"], "fmod": ["j.width() * 1000.0", "7"], "hypot": ["j.width() * 1000.0", "j.pt()"], "fmax": ["j.width()", "j.pt()"],
              "copysign": ["j.width()", "j.eta()"], "ldexp": ["j.width()", "20"], "log": ["(j.width() + 1.0)"], "exp": ["(j.width() / 16.0)"]}.get(f, ["j.width() * 1000.0 + 0.567"])
        C.append({"id": f"{f}:float_arg", "fn": f, "expr": f"{f}({', '.join(fa)})"})
    # exact IEEE results that only survive if the job is built without value-changing optimisation (the build description is
    # part of the package: its compiler options are honoured by the harness)
    C.append({"id": "ieee:sqrt_squared", "fn": "sqrt", "expr": f"(sqrt({POS}) * sqrt({POS}) - {POS})"})
    C.append({"id": "ieee:exp_log", "fn": "exp", "expr": f"(exp(log({POS})) - {POS})"})
    C.append({"id": "ieee:no_reassociation", "fn": "fabs", "expr": "((fabs(j.pt()) + 10000000000000000.0) - 10000000000000000.0)"})
    C.append({"id": "ieee:div_mul", "fn": "fabs", "expr": "(fabs(j.pt()) / 3.0 * 3.0 - fabs(j.pt()))"})
    C.append({"id": "ieee:signed_zero", "fn": "copysign", "expr": "copysign(1.0, (0.0 - fabs(j.pt())) * 0.0)"})
    C.append({"id": "ieee:nan_operand", "fn": "fmax", "expr": "(fmax(j.pt(), sqrt(0.0 - fabs(j.pt()) - 1.0)) + fmin(sqrt(0.0 - fabs(j.eta()) - 1.0), j.eta()))"})
    return C


def run(ctx: Ctx) -> int:
    eng = diff.Engine(ctx)
    if ctx.replay:
        return common.replay_differential(ctx, eng, ctx.replay)
    common.run_witnesses(ctx, eng)
    fns = documented_functions()
    ctx.extra["documented_functions"] = fns
    from ..xlate import run_batch
    tbl = run_batch([{"fn": "vf.props.c12:table_worker", "args": {}}], ctx.scratch)[0]
    table_names = tbl.get("names", [])
    ctx.extra["translator_table_only"] = sorted(set(n for n in table_names if "." not in n) - set(fns))
    ctx.extra["documented_but_not_in_table"] = sorted(set(fns) - set(table_names))
    if len(fns) < 40:
        ctx.inconclusive.append(f"could not parse the documented function list from README.md ({len(fns)} names)")
        return ctx.finish("exploration", RULE, ASSUME)
    missing_ref = [f for f in fns if f not in refrt.MATHFN and f not in ("abs", "pow")]
    if missing_ref:
        ctx.inconclusive.append(f"no reference for {missing_ref}")
    allc = cells(fns)
    known = ctx.known_entries()
    backends = ["atlas"] + ([sch.BACKENDS[1 + ctx.seed % 2]] if ctx.quick else ["cms_aod", "cms_miniaod"])
    failures = []
    for backend in backends:
        s = sch.fixed(backend)
        coll = s["main"]["coll"]
        R = ctx.rng("ev", backend)
        evs = [evgen.gen_event(s, R, "dense") for _ in range(ctx.pick(3, 10))]
        table = allc if backend == "atlas" or not ctx.quick else [c for c in allc if c["id"].endswith((":standalone", ":plus1"))]

        def mk(cl):
            body = ", ".join(c["expr"] for c in cl)
            q = f"ds.SelectMany(lambda e: e.{coll}('A')).Select(lambda j: ({body},))" if len(cl) > 1 else f"ds.SelectMany(lambda e: e.{coll}('A')).Select(lambda j: {cl[0]['expr']})"
            c = diff.Case(backend, q, evs, diff.members_used(s, q), tag=cl)
            c.allow_nonfinite = True  # type: ignore
            return c
        # the same cells with the argument taken from the FIRST object of the event (event-level rows): the call's value
        # is produced inside the first-element block and consumed outside of it
        F = f"e.{coll}('A').First()"

        def mk_ev(cl):
            body = ", ".join(c["expr"].replace("j.", F + ".") for c in cl)
            q = f"ds.Where(lambda e: e.{coll}('A').Count() > 0).Select(lambda e: ({body},))"
            cl2 = [dict(c, id=c["id"] + "@first_of_event", expr=c["expr"].replace("j.", F + ".")) for c in cl]
            c = diff.Case(backend, q, evs, diff.members_used(s, q), tag=cl2)
            c.allow_nonfinite = True  # type: ignore
            c._mk = mk_ev  # type: ignore
            return c
        ev_table = [c for c in allc if "j." in c["expr"] and c["id"].endswith((":standalone", ":times2") if backend == "atlas" else (":standalone",))]
        if ctx.quick:
            ev_table = [c for k, c in enumerate(ev_table) if (k + ctx.seed) % 2 == 0]
        cases = [mk(table[i:i + 10]) for i in range(0, len(table), 10)] + [mk_ev(ev_table[i:i + 6]) for i in range(0, len(ev_table), 6)]
        results: List[Tuple[diff.Case, Dict[str, Any]]] = []
        diff.differential(ctx, eng, cases, lambda c, r: results.append((c, r)))
        retry = []
        for c, r in results:
            if not judge(ctx, backend, c, r, failures, isolate=len(c.tag) > 1):
                if hasattr(c, "_mk"):
                    retry += [mk_ev([dict(cell, id=cell["id"].replace("@first_of_event", ""), expr=cell["expr"].replace(F + ".", "j."))]) for cell in c.tag]
                else:
                    retry += [mk([cell]) for cell in c.tag]
        if retry:
            ctx.count("cells_isolated", len(retry))
            results = []
            diff.differential(ctx, eng, retry, lambda c, r: results.append((c, r)))
            for c, r in results:
                judge(ctx, backend, c, r, failures, isolate=False)
    for backend, cell, kind, detail in failures:
        hit = next((f for f in known if cell["fn"] in f.get("functions", [])), None)
        if hit:
            ctx.known_hits[hit["key"]] += 1
            ctx.known_finding(hit["key"], hit["mechanism"][:170] + f" [witness: {cell['expr']} -> {detail[:120]}]")
            continue
        ctx.violation({"backend": backend, "cell": cell["id"], "expr": cell["expr"]}, f"[{backend}] {cell['id']}: {cell['expr']}: {kind}: {detail}")
    return ctx.finish("exploration", RULE, ASSUME, exhaustive=True)


def judge(ctx: Ctx, backend, case, r, failures, isolate) -> bool:
    kind = shrink.failure_kind(r)
    if kind in ("harness", "timeout"):
        ctx.count("harness_errors")
        ctx.notes.append(str(r.get("harness") or r.get("verdict", {}).get("harness") or r["translate"])[:300])
        return True
    if kind is not None and isolate:
        return False
    if kind is not None:
        ctx.count("evaluations")
        failures.append((backend, case.tag[0], kind, common.describe(r)))
        return True
    ctx.count("jobs_compiled_and_run")
    ctx.count("rows_compared", r["verdict"]["rows"])
    ctx.count("events_decided", r["verdict"]["decided"])
    ctx.count("events_unspec", r["verdict"]["unspec"])
    src = (Path(str(case._pkg)) / "x")  # package removed after the run; the include is implied by a successful compile
    branches = r["run"]["book"][0]["branches"] if r["run"]["book"] else []
    for ci, cell in enumerate(case.tag):
        ctx.count("evaluations")
        if ci < len(branches) and cell["id"].endswith((":standalone", ":large", ":literal")):
            from .c13 import type_class
            tc = type_class(branches[ci]["type"])
            want = "int" if cell["fn"] == "ilogb" else "float"
            if tc != want:
                failures.append((backend, cell, "type", f"the C function {cell['fn']} returns {'int' if want == 'int' else 'a floating value'}; the column is booked as {branches[ci]['type']}"))
                continue
        if r["verdict"]["rows"] == 0:
            ctx.count("cells_undecided")
            ctx.notes.append(f"undecided: {cell['id']} refs={[x[:2] for x in r['refs']][:2]}")
            continue
        ctx.seen((backend, cell["id"]))
        if cell["id"].endswith(":standalone") and ctx.counters["evaluations"] % 40 == 1:
            ctx.sample({"backend": backend, "cell": cell["id"], "expr": cell["expr"], "rows_compared": r["verdict"]["rows"]})
    return True


def table_worker(args):
    from func_adl_xAOD.common.cpp_functions import functions_to_replace
    return {"names": sorted(functions_to_replace)}
