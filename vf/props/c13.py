"""C13 - arithmetic follows Python numerics on the declared value types.

Exhaustive operator x operand-kind table: every cell is an output column of a per-object
query; the compiled job's column values and column TYPES are compared with Python's results
on the same objects.  Cells are batched ~18 per job and isolated when a batch disagrees."""
from __future__ import annotations

import itertools
import json
from pathlib import Path
from typing import Any, Dict, List, Optional, Tuple

from .. import diff, evgen, findings, schema as sch, shrink
from ..core import Ctx
from . import common

RULE = ("exhaustive table {+,-,*,/,%,**} x 8 operand kinds squared, unary {+,-,not} x kinds, six comparisons x kind pairs, Sum/Min/Max/Aggregate-with-seed x element kind x seed kind, "
        "conditional x arm-kind pairs (and the same one level deeper in the thorough tier); one cell = one output column, value AND column type class checked on every decided object; "
        "distinct = distinct (backend, cell); non-trivial = every cell")
ASSUME = ["Python is the reference for value and result kind (int stays integral, '/', '**' floating, comparisons bool); a conditional or Min/Max column may be floating (C03 wording)",
          "rows with a zero divisor / overflow / complex result are UNSPEC", "% cells only see non-negative operands"]

KINDS = {
    "ilit": ["3", "2", "7"], "icount": ["j.hits().Count()", "j.trkPts().Count()"], "imeth": ["j.nTrk()", "j.plusN(1)"], "fmeth": ["j.width()"], "dmeth": ["j.pt()", "j.eta()"],
    "flit": ["2.5", "0.5"], "fwhole": ["2.0", "10.0", "1e2", "3e9"], "bmeth": ["j.isGood()"], "bcmp": ["(j.pt() > 20.0)"],
}
INTK = ("ilit", "icount", "imeth")


def cells(ctx: Ctx, deeper: bool) -> List[Dict[str, Any]]:
    C: List[Dict[str, Any]] = []
    R = ctx.rng("cells")

    def pick(k):
        return R.choice(KINDS[k])
    for op in ["+", "-", "*", "/", "%", "**"]:
        for a, b in itertools.product(KINDS, KINDS):
            la, lb = pick(a), pick(b)
            if op == "**":
                lb = {"ilit": "2", "flit": "0.5", "fwhole": "2.0", "icount": lb, "imeth": lb, "fmeth": lb, "dmeth": "j.eta()", "bmeth": lb, "bcmp": lb}[b]
            expr = f"({la} {op} {lb})"
            C.append({"id": f"bin{op}:{a}:{b}", "expr": expr, "family": "mod" if op == "%" else "binop", "kinds": (a, b), "op": op})
            if op == "**" and b in INTK and a in INTK:
                # integer base with an exponent that is negative at run time: Python yields a fraction
                C.append({"id": f"bin**:{a}:{b}:negexp", "expr": f"(({la} + 1) ** ({pick(b)} - 4))", "family": "binop", "kinds": (a, b), "op": op})
                C.append({"id": f"bin**:{a}:{b}:neglit", "expr": f"(({la} + 2) ** -1)", "family": "binop", "kinds": (a, b), "op": op})
            if deeper:
                c = pick(R.choice(list(KINDS)))
                C.append({"id": f"bin{op}:{a}:{b}:deep", "expr": f"(({la} {op} {lb}) {R.choice(['+', '*', '-'])} {c})", "family": "mod" if op == "%" else "binop", "kinds": (a, b), "op": op})
    # grouping: a parenthesised RIGHT operand (and a left one) of every operator pair must keep its grouping
    for op1, op2 in itertools.product(["+", "-", "*", "/", "%"], ["+", "-", "*", "/", "%"]):
        for a, b, c in (("dmeth", "icount", "flit"), ("icount", "imeth", "ilit")):
            la, lb, lc = pick(a), pick(b), ("3" if c == "ilit" else "2.5")
            fam = "mod" if "%" in (op1, op2) else "binop"
            if fam == "mod" and (a == "dmeth" or (op1, op2) not in (("%", "+"), ("%", "*"), ("+", "%"), ("*", "%"))):
                continue  # '%' only between non-negative integers (floating / negative operands: known finding and ASSUME)
            C.append({"id": f"grp:{op1}:{op2}:right:{a}", "expr": f"({la} {op1} ({lb} {op2} {lc}))", "family": fam, "kinds": (a, b), "op": op1 + op2})
            C.append({"id": f"grp:{op1}:{op2}:left:{a}", "expr": f"(({la} {op1} {lb}) {op2} {lc})", "family": fam, "kinds": (a, b), "op": op1 + op2})
    C.append({"id": "grp:neg_of_sum", "expr": "(-(j.pt() + j.eta()) * 2)", "family": "binop", "kinds": ("dmeth", "dmeth"), "op": "-+"})
    C.append({"id": "grp:div_of_div", "expr": "(j.pt() / (j.hits().Count() / 2))", "family": "binop", "kinds": ("dmeth", "icount"), "op": "//"})
    C.append({"id": "grp:pow_right_assoc", "expr": "(2 ** (3 ** 2) + j.nTrk())", "family": "binop", "kinds": ("ilit", "ilit"), "op": "**"})
    for op in ["+", "-", "not "]:
        for a in KINDS:
            C.append({"id": f"un{op.strip()}:{a}", "expr": f"({op}{pick(a)})", "family": "unary", "kinds": (a,), "op": op.strip()})
    for op in ["<", "<=", ">", ">=", "==", "!="]:
        for a, b in itertools.product(KINDS, KINDS):
            C.append({"id": f"cmp{op}:{a}:{b}", "expr": f"({pick(a)} {op} {pick(b)})", "family": "compare", "kinds": (a, b), "op": op})
    seqs = {"ivec": "j.hits()", "fvec": "j.trkPts()", "dvec": "j.weights()", "isel": "j.tracks().Select(lambda t: t.nHits())", "dsel": "j.tracks().Select(lambda t: t.pt())",
            "bsel": "j.tracks().Select(lambda t: t.pt() > 10.0)"}
    for sk, se in seqs.items():
        C.append({"id": f"Sum:{sk}", "expr": f"{se}.Sum()", "family": "agg", "kinds": (sk,), "op": "Sum"})
        C.append({"id": f"Count:{sk}", "expr": f"{se}.Count()", "family": "agg", "kinds": (sk,), "op": "Count"})
        if sk != "bsel":
            C.append({"id": f"Max:{sk}", "expr": f"{se}.Max()", "family": "minmax", "kinds": (sk,), "op": "Max"})
            C.append({"id": f"Min:{sk}", "expr": f"{se}.Min()", "family": "minmax", "kinds": (sk,), "op": "Min"})
        for seedk, seed in (("ilit", "0"), ("ilit1", "1"), ("flit", "0.5"), ("dmeth", "j.eta()"), ("imeth", "j.nTrk()")):
            for bk, body in (("add", "a + x"), ("mul2", "a + x * 2"), ("half", "a + x / 2"), ("swap", "x + a"), ("cond_on_acc", "(a if a > 1 else 1) + x"),
                             ("cond_on_elem", "a + (x if x > 2 else 0)"), ("running_max", "a if a > x else x"), ("cond_int_arms_then_float", "(a if a > 0 else 0) + x / 4")):
                C.append({"id": f"Agg:{sk}:{seedk}:{bk}", "expr": f"{se}.Aggregate({seed}, lambda a, x: {body})", "family": "agg", "kinds": (sk, seedk), "op": "Aggregate",
                          "floating_ok": " if " in body})
    # negated comparisons as FILTERS (a filter is a statement of its own in the generated code, not an expression)
    for k, (op, neg) in enumerate([(">", "<="), ("<", ">="), (">=", "<"), ("<=", ">"), ("==", "!="), ("!=", "==")]):
        C.append({"id": f"where_not:{op}", "expr": f"j.tracks().Where(lambda t: not (t.pt() {op} 10.0)).Count()", "family": "agg", "kinds": ("isel",), "op": "Count"})
        C.append({"id": f"where_not_and:{op}", "expr": f"j.tracks().Where(lambda t: not (t.pt() {op} j.pt()) and not (t.eta() {op} 0.5)).Count()", "family": "agg", "kinds": ("isel",), "op": "Count"})
    C.append({"id": "where_not:outer", "expr": "(1 if not (j.pt() > 30.0) else 0)", "family": "cond", "kinds": ("ilit", "ilit"), "op": "ifexp"})
    for a, b in itertools.product(KINDS, KINDS):
        C.append({"id": f"if:{a}:{b}", "expr": f"({pick(a)} if j.pt() > 30.0 else {pick(b)})", "family": "cond", "kinds": (a, b), "op": "ifexp"})
    # conditionals whose arms hold partial operations (First / index): each arm is evaluated under its own test only
    for k, e in enumerate(["(j.tracks().First().pt() if j.tracks().Count() > 0 else -1.0)", "(j.trkPts().First() if j.trkPts().Count() > 0 else 0.5)",
                           "(-1 if j.hits().Count() == 0 else j.hits().First())", "(j.hits()[1] if j.hits().Count() > 1 else 0)",
                           "(j.tracks().First().nHits() if j.tracks().Count() > 1 else j.nTrk())", "((j.trkPts().First() if j.trkPts().Count() > 0 else 0.5) * 2 + 1)"]):
        C.append({"id": f"if:partial_arm:{k}", "expr": e, "family": "cond", "kinds": ("partial", "lit"), "op": "ifexp"})
    return C


def nonneg(events):
    def go(o):
        if isinstance(o, dict):
            return {k: go(v) for k, v in o.items()}
        if isinstance(o, list):
            return [go(v) for v in o]
        if isinstance(o, float):
            return abs(o)
        return o
    return go(events)


def kind_of(v) -> str:
    if isinstance(v, bool):
        return "bool"
    if isinstance(v, int):
        return "int"
    return "float"


def type_class(cpp: str) -> str:
    t = cpp.replace("const ", "").strip()
    if t == "bool":
        return "bool"
    if t in ("int", "unsigned int", "long", "unsigned long", "short", "unsigned short", "long long", "unsigned long long", "char"):
        return "int"
    if t in ("float", "double", "long double"):
        return "float"
    return "other:" + t


def run(ctx: Ctx) -> int:
    eng = diff.Engine(ctx)
    if ctx.replay:
        return common.replay_differential(ctx, eng, ctx.replay)
    common.run_witnesses(ctx, eng)
    known = ctx.all_known()
    allc = cells(ctx, deeper=not ctx.quick)
    ctx.extra["table_cells"] = len(allc)
    backends = sch.BACKENDS
    failures: List[Tuple[str, Dict[str, Any], str, str]] = []
    for backend in backends:
        s = sch.fixed(backend)
        coll = s["main"]["coll"]
        table = allc if (backend == "atlas" or not ctx.quick) else [c for i, c in enumerate(allc) if (i + ctx.seed) % 8 == 0]
        nsets = ctx.pick(1, 3)
        for es in range(nsets):
            R = ctx.rng("ev", backend, es)
            evs = [evgen.gen_event(s, R, "dense") for _ in range(4)] + [evgen.gen_event(s, R, "mixed") for _ in range(3)]
            evs_nn = nonneg(evs)
            # not-a-number values (a failed fit, 0/0 upstream): comparisons with them are false, `not (a > b)` is then TRUE
            nan_ev = json.loads(json.dumps(evgen.gen_event(s, R, "dense")))
            k = 0
            for bnk in nan_ev["banks"]:
                for o in bnk["objs"]:
                    k += 1
                    if k % 2 == 0 and isinstance(o.get("pt"), float):
                        o["pt"] = float("nan")
                    if k % 3 == 0 and isinstance(o.get("eta"), float):
                        o["eta"] = float("nan")
                    for t in o.get("tracks", []) or []:
                        k += 1
                        if k % 2 == 0:
                            t["pt"] = float("nan")
            evs = evs + [nan_ev]
            # batches: mod cells separately (non-negative events)
            by_family: Dict[bool, List[Dict[str, Any]]] = {True: [c for c in table if c["family"] == "mod"], False: [c for c in table if c["family"] != "mod"]}
            batches = []
            for is_mod, cl in by_family.items():
                for i in range(0, len(cl), 18):
                    batches.append((is_mod, cl[i:i + 18]))

            def mk(cl, is_mod):
                q = f"ds.SelectMany(lambda e: e.{coll}('A')).Select(lambda j: ({', '.join(c['expr'] for c in cl)}{',' if len(cl) == 1 else ''}))"
                if len(cl) == 1:
                    q = f"ds.SelectMany(lambda e: e.{coll}('A')).Select(lambda j: {cl[0]['expr']})"
                return diff.Case(backend, q, evs_nn if is_mod else evs, diff.members_used(s, q), tag=cl)
            cases = [mk(cl, m) for m, cl in batches]
            results: List[Tuple[diff.Case, Dict[str, Any]]] = []
            diff.differential(ctx, eng, cases, lambda c, r: results.append((c, r)))
            retry: List[diff.Case] = []
            for c, r in results:
                if check_batch(ctx, backend, c, r, failures, isolate=len(c.tag) > 1):
                    continue
                retry += [mk([cell], cell["family"] == "mod") for cell in c.tag]
            if retry:
                ctx.count("cells_isolated", len(retry))
                results = []
                diff.differential(ctx, eng, retry, lambda c, r: results.append((c, r)))
                for c, r in results:
                    check_batch(ctx, backend, c, r, failures, isolate=False)
    # classify failures: known mechanisms by cell family / operand kinds
    for backend, cell, kind, detail in failures:
        hit = classify_cell(known, cell, kind, detail)
        if hit:
            ctx.known_hits[hit["key"]] += 1
            if hit["property"] == ctx.prop:
                ctx.known_finding(hit["key"], hit["mechanism"][:170] + f" [witness cell {cell['id']}: {cell['expr']} -> {detail[:100]}]")
            continue
        ctx.violation({"backend": backend, "cell": cell["id"], "expr": cell["expr"]}, f"[{backend}] cell {cell['id']} {cell['expr']}: {kind}: {detail}")
    return ctx.finish("exploration", RULE, ASSUME, exhaustive=True)


def check_batch(ctx: Ctx, backend: str, case: diff.Case, r: Dict[str, Any], failures, isolate: bool) -> bool:
    """True if the batch is fully judged (held or failures recorded); False = re-run its cells one by one."""
    cl = case.tag
    kind = shrink.failure_kind(r)
    if kind in ("harness", "timeout"):
        ctx.count("harness_errors")
        ctx.notes.append(f"{kind}: {str(r.get('harness') or r.get('verdict', {}).get('harness'))[:200]}")
        return True
    if kind is not None and isolate:
        return False
    if kind is not None:
        ctx.count("evaluations")
        failures.append((backend, cl[0], kind, common.describe(r)))
        return True
    # values agree on all decided events: now the column types
    v = r["verdict"]
    refs = r["refs"]
    branches = r["run"]["book"][0]["branches"] if r["run"]["book"] else []
    ctx.count("jobs_compiled_and_run")
    ctx.count("events_decided", v["decided"])
    ctx.count("events_unspec", v["unspec"])
    ctx.count("rows_compared", v["rows"])
    for ci, cell in enumerate(cl):
        ctx.count("evaluations")
        vals = [diff.rowvals(row)[ci] for ref in refs if ref[0] == "ROWS" for row in ref[1]]
        if not vals:
            ctx.count("cells_undecided")
            continue
        ks = {kind_of(x) for x in vals}
        tc = type_class(branches[ci]["type"]) if ci < len(branches) else "missing"
        bad = None
        if ks == {"bool"} and tc != "bool" and cell["family"] != "cond" and not cell.get("floating_ok"):
            bad = f"Python result is bool, column type is {branches[ci]['type']}"
        elif cell["family"] == "cond" or cell.get("op") == "**":
            # C03: "real division and conditionals are floating"; C13: "'**' is a real power" - any numeric column type carries the value
            bad = None if tc in ("int", "float", "bool") else f"column type is {branches[ci]['type']}"
        elif ks == {"int"} and tc != "int" and cell["family"] not in ("cond", "minmax") and not cell.get("floating_ok"):
            bad = f"Python result is int, column type is {branches[ci]['type']} (integer-valued results must remain integers)"
        elif "float" in ks and tc != "float":
            bad = f"Python result is float, column type is {branches[ci]['type']}"
        # Python's floats are doubles: arithmetic with a double operand (a double method, a floating literal) must not be
        # narrowed to the 24 bits of a float operand that happens to stand beside it
        DOUBLE_KINDS = {"dmeth", "flit", "fwhole"}
        if bad is None and cell["family"] in ("binop", "mod") and set(cell.get("kinds", ())) & DOUBLE_KINDS and branches[ci]["type"].replace("std::vector<", "").strip("> ") == "float":
            bad = f"an operand is a double but the result column is booked as {branches[ci]['type']} (narrowed to single precision)"
        if bad:
            failures.append((backend, cell, "type", bad))
        else:
            ctx.seen((backend, cell["id"]))
            ctx.count("cells_held")
            if len(vals) and cell["family"] in ("binop", "agg") and ctx.counters["cells_held"] % 97 == 1:
                ctx.sample({"backend": backend, "cell": cell["id"], "expr": cell["expr"], "column_type": branches[ci]["type"], "values_compared": len(vals), "first_values": vals[:3]})
    return True


def classify_cell(known: List[dict], cell: Dict[str, Any], kind: str, detail: str) -> Optional[dict]:
    for f in known:
        c = f.get("cell_classifier")
        if not c:
            continue
        if c == "mod_with_non_integer_operand" and cell["family"] == "mod" and any(k not in INTK for k in cell["kinds"]) and kind.startswith("build"):
            return f
        if c == "minmax" and cell["family"] == "minmax" and kind.startswith("mismatch"):
            return f
    return None
