"""C06 - event collections are fetched by the requested bank, type and backend idiom.

The model event store / edm::Event logs every request (idiom, container type, bank); the
model headers make a missing #include a compile error and a missing LINK_LIBRARIES entry a
link error.  Built-in and metadata-declared collections (incl. one replacing a built-in name)
are used 1-3 per query with random bank strings; malformed declarations and calls are
enumerated exhaustively and must be refused."""
from __future__ import annotations

import json
import re
from pathlib import Path
from typing import Any, Dict, List, Optional, Tuple

from .. import diff, evgen, schema as sch, shrink
from ..core import Ctx
from ..schema import num, vec
from ..xlate import run_batch
from . import common

RULE = ("all built-in collections + metadata-declared ones (own header/library; one replacing a built-in name) x random bank strings (blanks, quotes, backslashes, unicode) x 3 backends x query forms "
        "(1-3 collections, same collection twice with equal/different banks, per-object rows, nested use, absent banks); malformed declaration/call matrix enumerated exhaustively; "
        "distinct = distinct (backend, query form, collections); non-trivial = every job case")
ASSUME = ["requests are observed at the model store: (idiom, container type, bank) hex-logged", "model headers/libraries are generated from the same collection specifications the translator holds"]

IDIOM = {"atlas": "retrieve", "cms_aod": "getByLabel", "cms_miniaod": "getByToken"}
BANK_ALPHABET = ["AntiKt4EMTopoJets", "A", "b", "with blank", "Ünï", "q\"uote", "back\\slash", "x_1", "a.b", "slimmedMuons", "-", "0", "CamelCase::ns",
                 # keys that look like something derived from another key (auxiliary stores, decorations, systematics), patterns, padding: a bank is
                 # whatever string the query names
                 "EventInfoAux.", "AntiKt4EMTopoJetsAux.", "JetsAuxDyn.pt", "Muons.", ".hidden", "Jets_NOSYS", "Jets%SYS%", "Tracks/forward", "two  blanks", " lead", "trail ", "a*", "[0]",
                 "slimmedMuons::PAT", "slimmedMuons:instance:PAT"]


def extended_schema(backend: str) -> Dict[str, Any]:
    s = sch.clone(sch.fixed(backend))
    main = s["main"]["coll"]
    mc = s["collections"][main]
    if backend == "atlas":
        s["classes"]["my::Thing"] = {"header": "MyPkg/Thing.h", "lib": "MyPkgLib", "members": {"pt": num(), "eta": num(), "q": num("int")}}
        s["collections"]["MyThings"] = {"container": "my::ThingContainer", "element": "my::Thing", "headers": ["MyPkg/ThingContainer.h"], "libs": ["MyPkgLib"], "builtin": False}
        s["classes"]["my::Info"] = {"header": "MyPkg/Info.h", "lib": "MyPkgLib", "members": {"lumi": num(), "n": num("int")}}
        s["collections"]["MyInfo"] = {"container": "my::Info", "element": None, "headers": ["MyPkg/Info.h"], "libs": ["MyPkgLib"], "builtin": False}
        # a declaration that REPLACES the built-in 'Electrons' by things
        s["collections"]["Electrons"] = {"container": "my::ThingContainer", "element": "my::Thing", "headers": ["MyPkg/ThingContainer.h"], "libs": ["MyPkgLib"], "builtin": False, "replaces": True}
    else:
        s["classes"]["my::Thing"] = {"header": "MyPkg/Thing/interface/Thing.h", "members": {"pt": num(), "eta": num(), "q": num("int")}}
        s["collections"]["MyThings"] = {"container": "my::ThingCollection", "element": "my::Thing", "headers": ["MyPkg/Thing/interface/ThingFwd.h", "MyPkg/Thing/interface/Thing.h"], "libs": [], "builtin": False}
        s["collections"]["Vertex"] = {"container": "my::ThingCollection", "element": "my::Thing", "headers": ["MyPkg/Thing/interface/ThingFwd.h", "MyPkg/Thing/interface/Thing.h"], "libs": [], "builtin": False, "replaces": True}
    return s


def declaration(backend: str, name: str, coll: Dict[str, Any]) -> Dict[str, Any]:
    if backend == "atlas":
        d = {"metadata_type": "add_atlas_event_collection_info", "name": name, "include_files": coll["headers"], "container_type": coll["container"],
             "contains_collection": coll["element"] is not None, "link_libraries": coll["libs"]}
        if coll["element"] is not None:
            d["element_type"] = coll["element"]
        return d
    t = "aod" if backend == "cms_aod" else "miniaod"
    return {"metadata_type": f"add_cms_{t}_event_collection_info", "name": name, "include_files": coll["headers"], "container_type": coll["container"], "element_type": coll["element"],
            "contains_collection": True, "element_pointer": False}


def num_member(s, coll) -> Tuple[str, str]:
    cls = coll["element"] or coll["container"]
    for n, m in s["classes"][cls]["members"].items():
        if m["k"] == "num" and m["ctype"] == "double":
            return n, cls
    n = next(iter(s["classes"][cls]["members"]))
    return n, cls


def gen_case(ctx: Ctx, backend: str, s, i: int) -> Optional[diff.Case]:
    R = ctx.rng("c06", backend, i)
    names = list(s["collections"])
    seqs = [n for n in names if s["collections"][n]["element"] is not None]
    singles = [n for n in names if s["collections"][n]["element"] is None]
    form = R.choice(["one", "two", "three", "same_equal", "same_different", "object_rows", "nested", "singleton", "absent", "where", "shared_variable", "shared_variable"])
    banks = R.sample(BANK_ALPHABET, 3)
    used: List[Tuple[str, str]] = []

    def use(n, b):
        used.append((n, b))
        return f"e.{n}({b!r})"

    def val(n):
        return num_member(s, s["collections"][n])[0]
    c1, c2, c3 = R.choice(seqs), R.choice(seqs), R.choice(seqs)
    if form == "one":
        q = f"ds.Select(lambda e: {use(c1, banks[0])}.Select(lambda x: x.{val(c1)}()))"
    elif form == "two":
        q = f"ds.Select(lambda e: ({use(c1, banks[0])}.Count(), {use(c2, banks[1])}.Select(lambda x: x.{val(c2)}())))"
    elif form == "three":
        q = f"ds.Select(lambda e: {{'a': {use(c1, banks[0])}.Count(), 'b': {use(c2, banks[1])}.Count(), 'c': {use(c3, banks[2])}.Select(lambda x: x.{val(c3)}())}})"
    elif form == "same_equal":
        q = f"ds.Select(lambda e: ({use(c1, banks[0])}.Count(), {use(c1, banks[0])}.Select(lambda x: x.{val(c1)}()), {use(c1, banks[0])}.Where(lambda x: x.{val(c1)}() > 1.0).Count()))"
    elif form == "same_different":
        q = f"ds.Select(lambda e: ({use(c1, banks[0])}.Count(), {use(c1, banks[1])}.Select(lambda x: x.{val(c1)}())))"
    elif form == "object_rows":
        q = f"ds.SelectMany(lambda e: {use(c1, banks[0])}).Select(lambda x: x.{val(c1)}())"
    elif form == "nested":
        q = f"ds.Select(lambda e: {use(c1, banks[0])}.Select(lambda x: {use(c2, banks[1])}.Where(lambda y: y.{val(c2)}() > x.{val(c1)}()).Count()))"
    elif form == "where":
        q = f"ds.Where(lambda e: {use(c1, banks[0])}.Count() > 0).Select(lambda e: {use(c2, banks[1])}.Count())"
    elif form == "shared_variable":
        # ONE call site bound to a variable that is then used in several scopes (arms of a conditional, operands of and/or, columns)
        v = val(c1)
        body = R.choice([f"ms.Count() if {R.choice(['1 > 0', '2 < 1'])} else ms.Count() + 1",
                         f"(ms.Count(), ms.Select(lambda x: x.{v}()), ms.Where(lambda x: x.{v}() > 1.0).Count())",
                         f"ms.Select(lambda x: x.{v}()).Sum() if ms.Count() > 1 else ms.Count() * 1.0",
                         f"(ms.Count() > 0 and ms.Where(lambda x: x.{v}() > 0.0).Count() > 0) or ms.Count() == 0"])
        q = f"ds.Select(lambda e: {use(c1, banks[0])}).Select(lambda ms: {body})"
    elif form == "singleton":
        if not singles:
            return None
        sname = R.choice(singles)
        q = f"ds.Select(lambda e: ({use(sname, banks[0])}.{val(sname)}(), {use(c1, banks[1])}.Count()))"
    else:  # absent: the bank of c2 is not in the event
        q = f"ds.Select(lambda e: ({use(c1, banks[0])}.Count(), {use(c2, banks[1])}.Count()))"
    # events: every used (collection, bank) present with objects, except the absent one
    absent = used[-1] if form == "absent" else None
    evs = []
    for k in range(4):
        RR = ctx.rng("c06ev", backend, i, k)
        ev = {"banks": []}
        done = set()
        for n, b in used:
            if (n, b) in done or (n, b) == absent:
                continue
            done.add((n, b))
            spec = s["collections"][n]
            cls = spec["element"] or spec["container"]
            cnt = 1 if spec["element"] is None else RR.choice([0, 1, 2, 3])
            ev["banks"].append({"coll": n, "bank": b, "objs": [evgen.gen_obj(s, cls, RR, 1) for _ in range(cnt)]})
        # a decoy: same bank name under another container type must not be picked up
        if used and RR.random() < 0.5:
            n0, b0 = used[0]
            others = [n for n in seqs if s["collections"][n]["container"] != s["collections"][n0]["container"]]
            if others:
                o = RR.choice(others)
                if (o, b0) not in done and (o, b0) != absent:
                    ev["banks"].append({"coll": o, "bank": b0, "objs": [evgen.gen_obj(s, s["collections"][o]["element"], RR, 1) for _ in range(2)]})
        evs.append(ev)
    md = diff.members_used(s, q)
    for n in {n for n, _ in used}:
        if not s["collections"][n].get("builtin", False):
            md.append(declaration(backend, n, s["collections"][n]))
    if used and R.random() < 0.25:
        # an inject_code block of the same query that names a used collection's own header (as a header include, a source include,
        # or both): the collection still gets what it needs on every backend
        hdrs = list(s["collections"][used[0][0]]["headers"])
        blk = {"metadata_type": "inject_code", "name": f"c06blk{i}"}
        for fld in R.choice([["header_includes"], ["body_includes"], ["header_includes", "body_includes"]]):
            blk[fld] = hdrs
        md.append(blk)
        form = form + "+own_header_in_inject_block"
    return diff.Case(backend, q, evs, md, schema=s, tag={"form": form, "used": used, "absent": absent})


def check_requests(c: diff.Case, r: Dict[str, Any]) -> Optional[str]:
    s = c.schema
    used = c.tag["used"]
    want = {(s["collections"][n]["container"], b) for n, b in used}
    run = r["run"]
    for k, ev in run["events"].items():
        got = [(x["ctype"], x["bank"]) for x in ev["retrieves"]]
        if any(x["how"] != IDIOM[c.backend] for x in ev["retrieves"]):
            return f"event {k}: collection fetched with idiom {[x['how'] for x in ev['retrieves']]}, backend idiom is {IDIOM[c.backend]}"
        extra = set(got) - want
        if extra:
            return f"event {k}: the job asked the store for {sorted(extra)} which the query never names (query names {sorted(want)})"
        ref = r["refs"][k]
        touched = set(ref[2])
        if ref[0] != "UNSPEC" and not touched <= set(got):
            return f"event {k}: the query uses {sorted(touched)} but the job only fetched {sorted(set(got))}"
    if c.backend == "cms_miniaod":
        b = run["book"][0]
        cons = b.get("consumes", [])
        uses = len(used)
        # one token per use: a call site the normaliser copied into two places counts as two uses, so only a LOWER bound on the
        # number of tokens follows from the query text; every token must carry a (type, bank) the query names
        if len(cons) < uses:
            return f"{len(cons)} tokens initialised for {uses} collection uses: {cons}"
        if {(x["ctype"], x["bank"]) for x in cons} != {(s["collections"][n]["container"], bb) for n, bb in used}:
            return f"tokens initialised with {[(x['ctype'], x['bank']) for x in cons]}, the query uses {used}"
        if len({x["serial"] for x in cons}) != len(cons):
            return f"a token was initialised twice: {cons}"
        # every getByToken must be served by the token initialised with that very bank: TOKEN_USE serial -> CONSUMES record -> following RETRIEVE
        by_serial = {x["serial"]: x for x in cons}
        for k, ev in run["events"].items():
            serials = [int(f.split("serial=")[1]) for f in ev["flags"] if f.startswith("TOKEN_USE")]
            for sn, req in zip(serials, ev["retrieves"]):
                t = by_serial.get(sn)
                if t is None or (t["ctype"], t["bank"]) != (req["ctype"], req["bank"]):
                    return f"event {k}: getByToken used token {t} for request {req}"
    return None


def malformed_matrix(backend: str, s) -> List[Tuple[str, str, bool]]:
    "(name, query, must_refuse)"
    out = []
    base = declaration(backend, "MyThings", s["collections"]["MyThings"])
    use = "Select({ds}, lambda e: e.MyThings('X').Count())"

    def q(md, body=use):
        return body.replace("{ds}", f"MetaData(ds, {md!r})")
    out.append(("wellformed", q(base), False))
    for k in base:
        if k == "metadata_type":
            continue
        if backend == "atlas" and k == "link_libraries":
            out.append((f"drop_optional_{k}", q({x: v for x, v in base.items() if x != k}), False))
            continue
        if k == "element_pointer":
            out.append((f"drop_optional_{k}", q({x: v for x, v in base.items() if x != k}), False))
            continue
        out.append((f"drop_{k}", q({x: v for x, v in base.items() if x != k}), True))
    # keys that are legal for ANOTHER backend's declaration are still wrong here
    other_keys = ["element_pointer"] if backend == "atlas" else ["link_libraries"]
    for extra in ["bogus", "element_types", "libraries", "link_library", "include_file", "backend"] + other_keys:
        out.append((f"extra_{extra}", q(dict(base, **{extra: "x"})), True))
    if backend == "atlas":
        out.append(("element_with_singleton", q(dict(base, contains_collection=False)), True))
    out.append(("collection_without_element", q({x: v for x, v in base.items() if x != "element_type"}), True))
    for ob in ("atlas", "cms_aod", "cms_miniaod"):
        if ob != backend:
            so = extended_schema(ob)
            out.append((f"declaration_for_{ob}", q(declaration(ob, "MyThings", so["collections"]["MyThings"])), True))
    main = s["main"]["coll"]
    for nm, call in (("call_no_args", f"e.{main}()"), ("call_two_args", f"e.{main}('A', 'B')"), ("call_int_arg", f"e.{main}(5)"), ("call_none_arg", f"e.{main}(None)"),
                     ("call_expr_arg", f"e.{main}('A' + 'B')"), ("call_str_plus_number", f"e.{main}('A', 30000.0)"), ("call_str_plus_bool", f"e.{main}('A', True)"), ("call_number_then_str", f"e.{main}(0, 'A')"),
                     ("call_str_plus_none", f"e.{main}('A', None)"), ("declared_str_plus_number", "e.MyThings('A', 2)"), ("declared_no_args", "e.MyThings()"), ("declared_two_args", "e.MyThings('A', 'B')"), ("declared_float_arg", "e.MyThings(1.5)")):
        out.append((nm, q(base, "Select({ds}, lambda e: " + call + ".Count())"), True))
    sing = [n for n, c in s["collections"].items() if c["element"] is None]
    if sing:
        sn = sing[0]
        member = num_member(s, s["collections"][sn])[0]
        md = [] if s["collections"][sn].get("builtin") else [declaration(backend, sn, s["collections"][sn])]
        src = "ds"
        for m in md:
            src = f"MetaData({src}, {m!r})"
        out.append(("singleton_as_sequence_select", f"Select({src}, lambda e: e.{sn}('X').Select(lambda i: i.{member}()))", True))
        out.append(("singleton_as_sequence_count", f"Select({src}, lambda e: e.{sn}('X').Count())", True))
        out.append(("singleton_as_value", f"Select({src}, lambda e: e.{sn}('X').{member}())", False))
    return out


def run(ctx: Ctx) -> int:
    eng = diff.Engine(ctx)
    if ctx.replay:
        rep = common.load_replay(ctx.replay)["case"]
        if "events" not in rep:
            print("replay: matrix case", rep)
            return 1
        c = diff.Case(rep["backend"], rep["query"], rep["events"], [], schema=extended_schema(rep["backend"]))
        res = []
        diff.differential(ctx, eng, [c], lambda cc, r: res.append(r))
        k = shrink.failure_kind(res[0])
        print("replay:", k or "held (values); request log not re-judged")
        return 1 if k else 0
    common.run_witnesses(ctx, eng)
    n = ctx.pick(40, 600)
    cases: List[diff.Case] = []
    schemas = {b: extended_schema(b) for b in sch.BACKENDS}
    for b in sch.BACKENDS:
        k = 0
        i = 0
        while k < n and i < 3 * n:
            i += 1
            c = gen_case(ctx, b, schemas[b], i)
            if c is not None:
                cases.append(c)
                k += 1
    # one call site whose FIRST use lies inside one arm of a conditional and whose second use lies in the sibling arm
    for b in sch.BACKENDS:
        s = schemas[b]
        main = s["main"]["coll"]
        other = [n for n, c in s["collections"].items() if c["element"] is not None and n != main][0]
        v1, v2 = num_member(s, s["collections"][main])[0], num_member(s, s["collections"][other])[0]
        fixed_forms = [
            (f"ds.Select(lambda e: e.{main}('A')).Select(lambda ms: ms.Count() if 1 > 0 else ms.Count() + 1)", [(main, "A")]),
            (f"ds.Select(lambda e: e.{main}('A')).Select(lambda ms: ms.Count() + 1 if 2 < 1 else ms.Select(lambda x: x.{v1}()).Sum())", [(main, "A")]),
            (f"ds.Select(lambda e: (e.{main}('A'), e.{other}('O'))).Select(lambda t: t[0].Count() if t[1].Count() > 0 else t[0].Count() + 1)", [(main, "A"), (other, "O")]),
            (f"ds.Select(lambda e: {{'a': e.{main}('A'), 'b': e.{other}('O')}}).Select(lambda d: d.a.Select(lambda x: x.{v1}()).Sum() if d.b.Count() > 1 else d.a.Count() * 1.0)", [(main, "A"), (other, "O")]),
            (f"ds.Select(lambda e: (e.{main}('A'), e.{other}('O'))).Select(lambda t: (t[1].Count() > 0 and t[0].Count() > 0) or t[0].Count() > 5)", [(main, "A"), (other, "O")]),
        ]
        # a collection fetched INSIDE the argument list of an injected C++ function (and of a built-in plug-in)
        ufn = {"metadata_type": "add_cpp_function", "name": "UserMix", "include_files": ["cmath"], "arguments": ["a", "b"], "code": ["double t = a - b;", "auto result = std::sqrt(t * t) + 0.5 * b;"],
               "return_type": "double"}
        plugin_forms = [
            (f"ds.Select(lambda e: UserMix(e.{main}('A').Count() * 1.0, e.{other}('O').Count() * 1.0))", [(main, "A"), (other, "O")]),
            (f"ds.Select(lambda e: e.{main}('A').Select(lambda x: UserMix(x.{v1}(), e.{other}('O').Count() * 1.0)))", [(main, "A"), (other, "O")]),
            (f"ds.Select(lambda e: e.{main}('A').Where(lambda x: UserMix(e.{main}('B').Count() * 1.0, x.{v1}()) > 1.0).Count())", [(main, "A"), (main, "B")]),
        ]
        for k, (q, used) in enumerate(fixed_forms + plugin_forms):
            evs = []
            for j in range(4):
                RR = ctx.rng("c06sib", b, k, j)
                evs.append({"banks": [{"coll": n, "bank": bk, "objs": [evgen.gen_obj(s, s["collections"][n]["element"], RR, 1) for _ in range(RR.choice([0, 1, 2, 3]))]} for n, bk in used]})
            md = diff.members_used(s, q)
            for n in {n for n, _ in used}:
                if not s["collections"][n].get("builtin", False):
                    md.append(declaration(b, n, s["collections"][n]))
            plug = k >= len(fixed_forms)
            if plug:
                md.append(ufn)
            cases.append(diff.Case(b, q, evs, md, schema=s, tag={"form": (f"inside_plugin_arguments_{k}" if plug else f"shared_variable_sibling_scopes_{k}"), "used": used, "absent": None},
                                   extra_globals=({"UserMix": lambda a, b: abs(a - b) + 0.5 * b} if plug else None)))
    # the same executor first handles a query whose metadata REPLACES / declares collections, then a plain query: the plain
    # query must still fetch the built-in collections (declarations live for one query only)
    for b in sch.BACKENDS:
        s = schemas[b]
        fixed = sch.clone(sch.fixed(b))
        fixed["collections"] = dict(fixed["collections"])
        repl = [n for n, c in s["collections"].items() if c.get("replaces")][0]
        pre = diff.attach_metadata(f"ds.Select(lambda e: (e.{repl}('X').Count(), e.MyThings('Y').Count()))", [declaration(b, repl, s["collections"][repl]), declaration(b, "MyThings", s["collections"]["MyThings"])])
        mem = num_member(fixed, fixed["collections"][repl])[0]
        for k in range(ctx.pick(2, 10)):
            q = f"ds.Select(lambda e: (e.{repl}('Z{k}').Select(lambda x: x.{mem}()), e.{fixed['main']['coll']}('A').Count()))"
            RR = ctx.rng("c06seq", b, k)
            evs = []
            for _ in range(3):
                evs.append({"banks": [{"coll": repl, "bank": f"Z{k}", "objs": [evgen.gen_obj(fixed, fixed["collections"][repl]["element"], RR, 1) for _ in range(RR.choice([0, 1, 3]))]},
                                      {"coll": fixed["main"]["coll"], "bank": "A", "objs": [evgen.gen_obj(fixed, fixed["collections"][fixed["main"]["coll"]]["element"], RR, 1) for _ in range(2)]}]})
            c = diff.Case(b, q, evs, diff.members_used(fixed, q), schema=fixed, tag={"form": "after_replacing_query_on_same_executor", "used": [(repl, f"Z{k}"), (fixed["main"]["coll"], "A")], "absent": None})
            c.pre_queries = [pre]  # type: ignore
            cases.append(c)
    results: List[Tuple[diff.Case, Dict[str, Any]]] = []
    diff.differential(ctx, eng, cases, lambda c, r: results.append((c, r)))
    for c, r in results:
        ctx.count("evaluations")
        kind = shrink.failure_kind(r)
        if kind in ("harness", "timeout"):
            ctx.count("harness_errors")
            ctx.notes.append((str(r.get("harness") or r.get("verdict", {}).get("harness")) + " :: " + c.query[:100])[:300])
            continue
        why = f"{kind}: {common.describe(r)}" if kind else check_requests(c, r)
        if why:
            ctx.violation(c.replay(), f"[{c.backend}] {why} :: {c.query[:260]}")
            continue
        ctx.count("jobs_compiled_and_run")
        ctx.count("retrieve_records", sum(len(e["retrieves"]) for e in r["run"]["events"].values()))
        ctx.count("consumes_records", len(r["run"]["book"][0].get("consumes", [])))
        ctx.count("absent_bank_events", r["verdict"]["faults"])
        ctx.seen((c.backend, c.tag["form"], tuple(sorted({n for n, _ in c.tag["used"]}))))
        ctx.sample({"backend": c.backend, "query": c.query[:200], "requests_event0": r["run"]["events"].get(0, {}).get("retrieves")}, 4)
    # exhaustive malformed declaration / call matrix
    reqs, meta = [], []
    for b in sch.BACKENDS:
        for name, q, must in malformed_matrix(b, schemas[b]):
            reqs.append({"args": {"backend": b, "query": q, "out": str(ctx.scratch / f"mal{len(reqs)}")}})
            meta.append((b, name, q, must))
    for (b, name, q, must), r in zip(meta, run_batch(reqs, ctx.scratch)):
        ctx.count("evaluations")
        ctx.count("matrix_cases")
        if r["status"] not in ("ok", "raised"):
            ctx.count("harness_errors")
            continue
        if must and r["status"] == "ok":
            ctx.violation({"backend": b, "case": name, "query": q}, f"[{b}] malformed collection declaration/call '{name}' was accepted: {q[:300]}")
        elif not must and r["status"] != "ok":
            ctx.violation({"backend": b, "case": name, "query": q}, f"[{b}] well-formed collection use '{name}' was refused: {r['exc']['type']}: {r['exc']['msg'][:200]} :: {q[:200]}")
        else:
            ctx.seen((b, "matrix", name))
    ctx.extra["malformed_matrix_exhaustive"] = True
    return ctx.finish("exploration", RULE, ASSUME)
