"""C11 - injected C++ functions are applied hygienically at every call site.

(a) an icontract post-condition on the REAL cpp_ast.process_ast_node (installed in the
    translating process, evaluation-counted) checks every call: emitted block == independent
    token-wise simultaneous substitution of the specification's code lines, result variable fresh,
    declared outside the block with the declared type, code in its own block, includes recorded;
(b) executable random specifications (arithmetic bodies) are compiled and their values compared
    with the same formula evaluated by Python;
(c) wrong arity / wrong call style must be refused."""
from __future__ import annotations

import json
import re
from pathlib import Path
from typing import Any, Dict, List, Optional, Tuple

from .. import diff, evgen, schema as sch, shrink
from ..core import Ctx, ensure_deps
from . import common

RULE = ("random function/method specifications: 1-4 parameters with adversarial names (words of the actual arguments' C++ such as pt/eta/i_obj1, prefixes and suffixes of each other, names of "
        "temporaries), 1-3 code lines mentioning look-alike words, custom result names, double/int/float and collection returns; actual arguments = member calls, arithmetic, constants, nested and "
        "repeated calls; plus DeltaR, isNonnull, getAttributeFloat/VectorFloat; plus wrong arity / call style; distinct = distinct (backend, spec shape, argument shapes); non-trivial = every case")
ASSUME = ["the independent substitution replaces identifier tokens equal to a parameter, all parameters simultaneously",
          "executable bodies are arithmetic over the parameters, so Python can evaluate the same formula"]

PARAM_POOL = ["pt", "eta", "pt2", "my_pt", "pt_eta", "i_obj", "i_obj1", "i_obj2", "x", "y", "a", "b", "value", "val", "jet", "obj", "t", "tmp", "collection_name", "aggResult2", "arg_1", "phi1", "e"]
LOOKALIKE = ["my_pt", "pt_eta", "eta2", "xx", "a_b", "valu", "i_objx", "ptpt", "t2", "tmp_"]


def gen_spec(R, idx: int, backend: str, method: bool) -> Dict[str, Any]:
    npar = R.choice([1, 2, 2, 3, 4])
    params = R.sample(PARAM_POOL, npar)
    # make some parameters prefixes / suffixes of each other on purpose
    rname = R.choice(["result", "result", "my_result", "res", "out_value"])
    params = [p for p in params if p != rname and not (method and p == "pt")]  # a parameter named like a member the body calls is the spec author's own capture
    if not params:
        params = ["x"]
    temps = [t for t in R.sample(LOOKALIKE, 2) if t not in params]
    deref = "->" if backend == "atlas" else "."
    mobj = R.choice(["xobj", "the_obj", "o"]) if method else None
    lines, py_lines = [], []

    def term():
        c = R.choice(["p", "p", "c", "m"] if method else ["p", "p", "c"])
        if c == "p":
            return R.choice(params)
        if c == "m":
            return f"{mobj}{deref}pt()", "SELF_PT"
        return R.choice(["2.0", "0.5", "3", "1.5"])

    def expr(n):
        parts = []
        for _ in range(n):
            t = term()
            parts.append(t)
        cx = " ".join(f"{R.choice(['+', '-', '*'])} {p[0] if isinstance(p, tuple) else p}" for p in parts)[2:]
        py = " ".join(f"{'X'} {p[1] if isinstance(p, tuple) else p}" for p in parts)
        return cx
    ntemp = R.choice([0, 1, 2]) if temps else 0
    body_cpp = []
    for k in range(min(ntemp, len(temps))):
        e = expr(R.choice([1, 2, 3]))
        body_cpp.append(f"double {temps[k]} = {e};")
    final = expr(R.choice([1, 2, 3]))
    for k in range(min(ntemp, len(temps))):
        final += f" {R.choice(['+', '-', '*'])} {temps[k]}"
    rtype = R.choice(["double", "double", "int", "float"])
    body_cpp.append(f"{R.choice(['auto', 'double'])} {rname} = {final};")
    if R.random() < 0.3:
        # a string literal that contains '//' (a URL) and a genuine trailing comment: neither is the translator's to touch
        body_cpp.insert(0, 'const char* url_c11 = "root://eospublic.cern.ch//eos/opendata/f.root";')
        body_cpp[-1] = body_cpp[-1][:-1] + " + 0.0 * (url_c11[4] == ':' ? (url_c11[7] == 'e' ? 1 : 2) : 3);  // uses url_c11, ends in a comment"
    if R.random() < 0.25:
        # C++ does not care about line breaks: a statement continued on the next line of the same code entry, a trailing newline
        k = R.randrange(len(body_cpp))
        m = re.search(r" ([+*-]) ", body_cpp[k])
        if m:
            body_cpp[k] = body_cpp[k][:m.end()] + "\n        " + body_cpp[k][m.end():]
        body_cpp[R.randrange(len(body_cpp))] += "\n"
    name = f"UserF{idx}"
    md: Dict[str, Any] = {"metadata_type": "add_cpp_function", "name": name, "include_files": R.choice([[], ["cmath"], ["vector", "cmath"]]), "arguments": params,
                          "code": body_cpp, "return_type": rtype}
    if rname != "result":
        md["result_name"] = rname
    if method:
        md["method_object"] = mobj
        md["instance_object"] = "xAOD::Jet" if backend == "atlas" else "reco::Muon"
    return {"md": md, "params": params, "temps": temps[:ntemp], "rname": rname, "rtype": rtype, "method": method, "mobj": mobj}


def py_function(spec: Dict[str, Any]):
    "the same arithmetic evaluated by Python (C++ lines are restricted to + - * on doubles)"
    params = spec["params"]
    lines = spec["md"]["code"]
    mobj, rname, rtype = spec["mobj"], spec["rname"], spec["rtype"]

    def f(*args, _self_pt=None):
        env = dict(zip(params, [float(a) for a in args]))
        for ln in lines:
            ln = " ".join(ln.split())
            if ln.startswith("const char* url_c11"):
                continue
            ln = re.sub(r" \+ 0\.0 \* \(url_c11.*$", ";", ln)
            m = re.match(r"(?:auto|double)\s+(\w+)\s*=\s*(.*);", ln)
            rhs = m.group(2)
            if mobj:
                rhs = re.sub(rf"\b{mobj}(->|\.)pt\(\)", "__selfpt", rhs)
                env["__selfpt"] = float(_self_pt)
            env[m.group(1)] = eval(rhs, {"__builtins__": {}}, env)
        v = env[rname]
        if rtype == "int":
            return int(v)  # C++ truncation toward zero == Python int()
        if rtype == "float":
            import struct
            return struct.unpack("f", struct.pack("f", v))[0]
        return v
    return f


def arg_expr(R, var: str, depth: int, fname: Optional[str], nparams: int) -> str:
    c = R.random()
    if c < 0.4 or depth <= 0:
        return R.choice([f"{var}.pt()", f"{var}.eta()", f"{var}.phi()", "2.0", "0.5", f"{var}.nTrk()", "3"])
    if c < 0.75:
        return f"({arg_expr(R, var, depth - 1, fname, nparams)} {R.choice(['+', '-', '*'])} {arg_expr(R, var, depth - 1, fname, nparams)})"
    if fname and c < 0.9:
        return f"{fname}({', '.join(arg_expr(R, var, 0, None, 0) for _ in range(nparams))})"
    return f"abs({arg_expr(R, var, depth - 1, fname, nparams)})"


def make_case(ctx: Ctx, backend: str, i: int) -> diff.Case:
    s = sch.fixed(backend)
    R = ctx.rng("c11", backend, i)
    C = s["main"]["coll"]
    method = R.random() < 0.3
    spec = gen_spec(R, i, backend, method)
    name, npar = spec["md"]["name"], len(spec["params"])
    pf = py_function(spec)
    cols = []
    for _ in range(R.choice([1, 2, 3])):
        if method:
            cols.append(f"j.{name}({', '.join(arg_expr(R, 'j', 1, None, 0) for _ in range(npar))})")
        else:
            cols.append(f"{name}({', '.join(arg_expr(R, 'j', 2, name, npar) for _ in range(npar))})")
    if R.random() < 0.3:
        cols.append(f"({cols[0]} + {cols[-1]})")
    scope_moving = R.random() < 0.35 and not method
    if scope_moving:
        # actual arguments whose translation opens loops / first-element blocks of their own (First, Count, Sum): the result
        # variable must still be declared where the call's value is used
        movers = ["j.tracks().First().pt()", "j.trkPts().First()", "j.tracks().Count()", "j.trkPts().Sum()", "j.tracks().Where(lambda t: t.pt() > 1.0).First().eta()"]
        a = [R.choice(movers) if k == 0 or R.random() < 0.4 else arg_expr(R, "j", 0, None, 0) for k in range(npar)]
        cols.append(f"{name}({', '.join(a)})")
        if R.random() < 0.5:
            cols.append(f"{name}({', '.join(reversed(a))})" if npar > 1 else f"({name}({a[0]}) * 2)")
    if R.random() < 0.2:
        cols.append("DeltaR(j.eta(), j.phi(), 0.5, 0.25)")
    second = None
    if not method and R.random() < 0.5:
        # a second, different function in the same query; the first one must still mean itself
        second = gen_spec(R, 1000 + i, backend, False)
        pf2 = py_function(second)
        a2 = ", ".join(arg_expr(R, "j", 1, None, 0) for _ in second["params"])
        cols.append(f"{second['md']['name']}({a2})")
        cols.append(cols[0])
    src = f"ds.SelectMany(lambda e: e.{C}('A'))"
    if scope_moving:
        src += ".Where(lambda j: j.tracks().Count() > 0 and j.trkPts().Count() > 0)"
    q = f"{src}.Select(lambda j: ({', '.join(cols)}{',' if len(cols) == 1 else ''}))"
    extra: Dict[str, Any] = {}
    if second:
        extra[second["md"]["name"]] = lambda *a: pf2(*a)
    if method:
        # reference: method on the model object; bind through a global helper used by a rewritten query text for the reference only
        extra[name] = lambda *a: pf(*a)
    else:
        extra[name] = lambda *a: pf(*a)
    mds = [spec["md"]] + ([second["md"]] if second else [])
    if second and R.random() < 0.5:
        mds.reverse()
    c = diff.Case(backend, q, evgen.gen_events(s, ctx.rng("ev", backend, i), 4), diff.members_used(s, q) + mds, tag={"spec": spec, "method": method, "two_functions": bool(second)}, extra_globals=extra)
    if spec["rtype"] == "float" or (second and second["rtype"] == "float"):
        # results declared float are single precision at every call; nested calls and cancelling arithmetic on them amplify the
        # 1e-7 steps beyond the per-column float tolerance (a wrong substitution is an O(1) effect and still stands out)
        c.min_tol = 1e-3  # type: ignore
    if method:
        c.ref_query = re.sub(rf"j\.{name}\(", f"{name}__m(j, ", q)  # type: ignore
        c.extra_globals = {f"{name}__m": (lambda o, *a: pf(*a, _self_pt=o.pt()))}
    return c


# ---------------------------------------------------------------- contract on process_ast_node (runs inside the translating process)
_TOK = re.compile(r"[A-Za-z_]\w*")


def independent_substitution(line: str, mapping: Dict[str, str]) -> str:
    return _TOK.sub(lambda m: mapping.get(m.group(0), m.group(0)), line)


def contract_monitor(args, phase, state):
    if phase != "before":
        return
    ensure_deps()
    import icontract
    import func_adl_xAOD.common.cpp_ast as cpp_ast
    import func_adl_xAOD.common.ast_to_cpp_translator as tr
    import func_adl_xAOD.common.statement as st
    import func_adl_xAOD.common.cpp_representation as crep

    state["contract_evals"] = 0
    state["contract_failures"] = []
    seen_results: set = set()

    def hygiene(visitor, gc, call_node, result):
        state["contract_evals"] += 1
        node = call_node.func
        fails = state["contract_failures"]
        try:
            mapping: Dict[str, str] = {}
            if node.replacement_instance_obj is not None:
                mapping[node.replacement_instance_obj[0]] = visitor.resolve_id(node.replacement_instance_obj[1]).rep.as_cpp()
            for a, dest in zip(node.args, call_node.args):
                mapping[a] = visitor.get_rep(dest).as_cpp()
            scope_block = gc._scope_stack[-1]
            blk = scope_block._statements[-1] if scope_block._statements else None
            if not isinstance(blk, st.block):
                fails.append("the code was not emitted into a block of its own")
                return True
            lines = [s._line for s in blk._statements if isinstance(s, st.arbitrary_statement)]
            want = [independent_substitution(l, mapping) for l in node.running_code]
            if lines != want:
                fails.append(f"emitted lines {lines!r:.300} differ from the simultaneous whole-word substitution {want!r:.300} (mapping {mapping!r:.200})")
            last = blk._statements[-1]
            if not isinstance(last, st.set_var) or last._target is not result or last._value.as_cpp() != node.result:
                fails.append("the block does not end by copying the result name into the result variable")
            if result.as_cpp() in seen_results:
                fails.append(f"result variable {result.as_cpp()} is not fresh")
            seen_results.add(result.as_cpp())
            # declared in (any) scope enclosing the block: argument translation may legitimately have moved the insertion point deeper
            if not any(v is result for b in gc._scope_stack for v in b._variables):
                fails.append("result variable is not declared in a scope enclosing the block")
            if any(v is result for v in blk._variables):
                fails.append("result variable is declared inside the block")
            for inc in node.include_files:
                if inc not in gc.include_files():
                    fails.append(f"include file {inc} not recorded")
            if blk._variables:
                fails.append("block of injected code declares translator variables")
        except Exception as e:  # a monitor bug must not masquerade as a verdict
            state.setdefault("monitor_errors", []).append(repr(e)[:200])
        return True

    class Broken(Exception):
        pass
    wrapped = icontract.ensure(hygiene, error=Broken)(cpp_ast.process_ast_node)
    cpp_ast.process_ast_node = wrapped  # the translator calls it through the module attribute (cpp_ast.process_ast_node)


REFUSALS = [
    ("too_few_args", "{F}(j.pt())", False), ("too_many_args", "{F}(j.pt(), j.eta(), j.phi())", False), ("no_args", "{F}()", False),
    ("function_called_as_method", "j.{F}(j.pt(), j.eta())", False), ("method_called_as_function", "{M}(j.pt())", True),
    ("method_too_many_args", "j.{M}(1.0, 2.0)", True), ("deltaR_too_few", "DeltaR(j.eta(), j.phi())", False),
    # a specification that names an instance type but no method object cannot bind a receiver: calling it like a method would drop `j`
    ("instance_only_spec_called_as_method", "j.IOnly(2.0)", True), ("deltaR_too_many", "DeltaR(j.eta(), j.phi(), 1.0, 2.0, 3.0)", False),
    ("builtin_method_too_many_args", "j.getAttributeFloat('a', 'b')", False),
]


def run(ctx: Ctx) -> int:
    eng = diff.Engine(ctx)
    if ctx.replay:
        return common.replay_differential(ctx, eng, ctx.replay)
    common.run_witnesses(ctx, eng)
    n = ctx.pick(50, 600)
    cases = []
    for backend in sch.BACKENDS:
        for i in range(n):
            cases.append(make_case(ctx, backend, i))
        # built-ins
        s = sch.fixed(backend)
        C = s["main"]["coll"]
        evs = evgen.gen_events(s, ctx.rng("evb", backend), 4)
        builtins = [f"ds.SelectMany(lambda e: e.{C}('A')).Select(lambda j: (DeltaR(j.eta(), j.phi(), j.phi(), j.eta()), DeltaR(j.phi(), j.eta(), 0.5, j.phi() + j.eta())))",
                    f"ds.Select(lambda e: e.{C}('A').Select(lambda j: e.{C}('B').Where(lambda k: DeltaR(j.eta(), j.phi(), k.eta(), k.phi()) < 50.0).Count()))"]
        if backend == "atlas":
            builtins += ["ds.SelectMany(lambda e: e.Jets('A')).Select(lambda j: (j.getAttributeFloat('emf'), j.getAttributeVectorFloat('vals').Count(), j.getAttributeVectorFloat('vals').Select(lambda v: v * 2)))"]
        else:
            builtins += [f"ds.SelectMany(lambda e: e.{C}('A')).Select(lambda j: (isNonnull(j.globalTrack()), j.globalTrack().pt() if isNonnull(j.globalTrack()) else -1.0))"]
        # a function returning a COLLECTION: of object pointers (ATLAS) / objects (CMS), and of numbers
        sub = s["main"]["subcls"]
        coll_fns = [{"metadata_type": "add_cpp_function", "name": "GoodTracks", "include_files": ["vector"], "arguments": ["jet"], "code": [f"auto result = jet{'->' if backend == 'atlas' else '.'}tracks();"],
                     "return_type": ("const " + sub + "*") if backend == "atlas" else sub, "return_is_collection": True},
                    {"metadata_type": "add_cpp_function", "name": "Doubled", "include_files": ["vector"], "arguments": ["jet", "f"],
                     "code": ["std::vector<double> result;", f"for (auto v : jet{'->' if backend == 'atlas' else '.'}trkPts()) result.push_back(v * f);"], "return_type": "double", "return_is_collection": True}]
        # element type spelled with a pointer INSIDE template arguments (the type itself is a value)
        coll_fns.append({"metadata_type": "add_cpp_function", "name": "PairColl", "include_files": ["vector", "utility"], "arguments": ["jet"],
                         "code": ["std::vector<std::pair<const double*, double>> result;",
                                  f"for (auto v : jet{'->' if backend == 'atlas' else '.'}trkPts()) result.push_back(std::make_pair((const double*)0, v * 2.0));"],
                         "return_type": "std::pair<const double*, double>", "return_is_collection": True})
        from ..refrt import AttrDict
        cg = {"GoodTracks": lambda j: j.tracks(), "Doubled": lambda j, f: j.trkPts().Select(lambda v: v * f),
              "PairColl": lambda j: j.trkPts().Select(lambda v: AttrDict(second=v * 2.0))}
        for q in (f"ds.Select(lambda e: e.{C}('A').Select(lambda j: GoodTracks(j).Select(lambda t: t.pt())))",
                  f"ds.Select(lambda e: e.{C}('A').Select(lambda j: GoodTracks(j).Where(lambda t: t.pt() > 5.0).Count()))",
                  f"ds.SelectMany(lambda e: e.{C}('A')).Select(lambda j: (GoodTracks(j).Count(), Doubled(j, 2.0).Sum(), j.pt()))",
                  f"ds.Select(lambda e: e.{C}('A').Select(lambda j: Doubled(j, 0.5).Select(lambda v: v + 1.0)))",
                  f"ds.Select(lambda e: e.{C}('A').Select(lambda j: PairColl(j).Select(lambda p: p.second)))",
                  f"ds.SelectMany(lambda e: e.{C}('A')).Select(lambda j: (PairColl(j).Count(), PairColl(j).Select(lambda p: p.second).Sum()))",
                  f"ds.Select(lambda e: e.{C}('A').Where(lambda j: GoodTracks(j).Count() > 0).Select(lambda j: GoodTracks(j).First().eta()))"):
            cases.append(diff.Case(backend, q, evs, diff.members_used(s, q) + coll_fns, tag={"builtin": True, "method": False, "collection_function": True}, extra_globals=cg))
        # a function supplied under the NAME of a built-in plug-in (the README's own example is called DeltaR): the supplied code is
        # what a call becomes
        own_dr = {"metadata_type": "add_cpp_function", "name": "DeltaR", "include_files": ["cmath"], "arguments": ["eta1", "phi1", "eta2", "phi2"],
                  "code": ["auto d_eta = eta1 - eta2;", "auto d_phi = phi1 - phi2;", "auto result = std::sqrt(d_eta*d_eta + d_phi*d_phi) + 100.0;"], "return_type": "double"}
        import math as _m
        own = lambda e1, p1, e2, p2: _m.sqrt((e1 - e2) ** 2 + (p1 - p2) ** 2) + 100.0   # noqa: E731
        for q in (f"ds.SelectMany(lambda e: e.{C}('A')).Select(lambda j: DeltaR(j.eta(), j.phi(), 0.5, 3.0))",
                  f"ds.Select(lambda e: e.{C}('A').Where(lambda j: DeltaR(j.eta(), j.phi(), 0.0, 0.0) > 101.0).Count())"):
            cases.append(diff.Case(backend, q, evs, diff.members_used(s, q) + [own_dr], tag={"builtin": True, "method": False, "own_function_named_like_builtin": True}, extra_globals={"DeltaR": own}))
        # two functions whose headers share a FILE NAME (PkgA/helpers.h, PkgB/interface/helpers.h): each needs its own
        twin = [{"metadata_type": "add_cpp_function", "name": "HelpA", "include_files": ["PkgA/helpers.h"], "arguments": ["x"], "code": ["auto result = pkga::twice(x);"], "return_type": "double"},
                {"metadata_type": "add_cpp_function", "name": "HelpB", "include_files": ["PkgB/interface/helpers.h", "cmath"], "arguments": ["x"], "code": ["auto result = pkgb::thrice(x);"], "return_type": "double"}]
        for q in (f"ds.SelectMany(lambda e: e.{C}('A')).Select(lambda j: (HelpA(j.pt()), HelpB(j.eta())))",
                  f"ds.Select(lambda e: e.{C}('A').Select(lambda j: HelpB(HelpA(j.pt()) + 1.0)))"):
            cases.append(diff.Case(backend, q, evs, diff.members_used(s, q) + twin, tag={"builtin": True, "method": False, "headers_sharing_a_file_name": True},
                                   extra_globals={"HelpA": lambda x: 2 * x, "HelpB": lambda x: 3 * x}))
        # ONE method-style function at several call sites with different receivers (nested and sibling lambdas)
        acc = "->" if backend == "atlas" else "."
        methf = {"metadata_type": "add_cpp_function", "name": "MethF", "include_files": [], "arguments": ["f"], "code": [f"auto result = obj_x{acc}pt() * f + obj_x{acc}eta();"], "return_type": "double",
                 "method_object": "obj_x", "instance_object": s["collections"][C]["element"]}
        for q in (f"ds.Select(lambda e: e.{C}('A').Select(lambda j: e.{C}('B').Where(lambda k: k.MethF(1.0) > j.MethF(0.5)).Count()))",
                  f"ds.Select(lambda e: (e.{C}('A').Select(lambda j: j.MethF(2.0)), e.{C}('B').Select(lambda k: k.MethF(3.0))))",
                  f"ds.Select(lambda e: e.{C}('A').Select(lambda j: j.tracks().Select(lambda t: j.MethF(t.pt()))))",
                  f"ds.Select(lambda e: e.{C}('A').Select(lambda a: a.MethF(1.0) + e.{C}('B').Select(lambda b: b.MethF(a.MethF(2.0))).Sum()))",
                  # the receiver is an EXPRESSION once the query is simplified (the first object of the event handed to the next Select)
                  f"ds.Where(lambda e: e.{C}('A').Count() > 0).Select(lambda e: e.{C}('A').First()).Select(lambda j: j.MethF(2.0))",
                  f"ds.Where(lambda e: e.{C}('A').Count() > 1).Select(lambda e: e.{C}('A')[1]).Select(lambda j: (j.MethF(0.5), j.pt()))",
                  f"ds.Select(lambda e: e.{C}('A').Where(lambda j: j.tracks().Count() > 0).Select(lambda j: j.tracks().First()).Select(lambda t: t.MethF(3.0)))"):
            c = diff.Case(backend, q, evs, diff.members_used(s, q) + [methf], tag={"builtin": True, "method": True, "method_at_several_sites": True},
                          extra_globals={"MethF__m": lambda o, f: o.pt() * f + o.eta()})
            c.ref_query = re.sub(r"\b(\w+)\.MethF\(", r"MethF__m(\1, ", q)  # type: ignore
            cases.append(c)
        for q in builtins:
            if "getAttributeVectorFloat('vals').Select" in q and any(f["key"] == "object_rows_with_sequence_column" for f in ctx.all_known()):
                q = q.replace(", j.getAttributeVectorFloat('vals').Select(lambda v: v * 2)", "")
            cases.append(diff.Case(backend, q, evs, diff.members_used(s, q), tag={"builtin": True, "method": False}))
    # translate with the contract installed, then run the differential oracle
    trs = eng.translate(cases, monitors=["vf.props.c11:contract_monitor"])
    for c in cases:
        eng.model(c.backend)
    from ..core import parallel_map
    from ..xlate import parse_query
    from .. import refrt

    def work(item):
        case, tr = item
        res: Dict[str, Any] = {"translate": tr}
        if tr["status"] != "ok":
            return res
        s = sch.fixed(case.backend)
        try:
            qtext = diff.attach_metadata(getattr(case, "ref_query", case.query), case.metadata)
            comp = refrt.Compiled(parse_query(qtext), s, case.extra_globals)
            res["refs"] = [refrt.decide_event(comp, ev) for ev in case.events]
        except Exception as e:
            res["harness"] = f"reference failed: {type(e).__name__}: {e}"
            return res
        br = eng.build_and_run(case)
        res["build"] = br["build"]
        if br["build"]["ok"]:
            res["run"] = br["runs"][0]
            res["verdict"] = eng.judge(case, br["runs"][0], res["refs"])
        return res
    results = parallel_map(work, list(zip(cases, trs)))
    for c, r in zip(cases, results):
        ctx.count("evaluations")
        mon = r["translate"].get("monitor", {})
        ctx.count("contract_evaluations", mon.get("contract_evals", 0))
        for e in mon.get("monitor_errors", []):
            ctx.notes.append("monitor error: " + e)
        if mon.get("contract_failures"):
            ctx.violation(c.replay(), f"[{c.backend}] contract on process_ast_node: {mon['contract_failures'][0]} :: {c.query[:200]} :: spec={c.tag.get('spec', {}).get('md')!r:.300}")
            continue
        kind = shrink.failure_kind(r)
        if kind in ("harness", "timeout"):
            ctx.count("harness_errors")
            ctx.notes.append((str(r.get("harness") or r.get("verdict", {}).get("harness")) + " :: " + c.query[:100])[:300])
            continue
        if kind is not None:
            ctx.violation(dict(c.replay(), spec=c.tag.get("spec", {}).get("md")), f"[{c.backend}] {kind}: {common.describe(r)} :: {c.query[:240]} :: spec={c.tag.get('spec', {}).get('md')!r:.400}")
            continue
        ctx.count("jobs_compiled_and_run")
        ctx.count("rows_compared", r["verdict"]["rows"])
        sp = c.tag.get("spec")
        sig = (c.backend, "builtin") if not sp else (c.backend, len(sp["params"]), tuple(sorted(sp["params"])), len(sp["md"]["code"]), sp["rtype"], sp["method"], sp["rname"])
        ctx.seen(sig)
        if sp:
            ctx.sample({"backend": c.backend, "spec": sp["md"], "query": c.query[:200], "rows_compared": r["verdict"]["rows"]}, 3)
    # (c) wrong arity / call style
    from ..xlate import run_batch
    reqs, meta = [], []
    for backend in sch.BACKENDS:
        s = sch.fixed(backend)
        C = s["main"]["coll"]
        F = {"metadata_type": "add_cpp_function", "name": "TwoArg", "include_files": [], "arguments": ["a", "b"], "code": ["auto result = a + b;"], "return_type": "double"}
        M = {"metadata_type": "add_cpp_function", "name": "OneArgM", "include_files": [], "arguments": ["a"], "code": ["auto result = a;"], "return_type": "double", "method_object": "xo",
             "instance_object": "X"}
        # every form on a receiver that is a variable, and on one that is an EXPRESSION when the plug-ins are resolved
        # (`x.First()` put in the place of `j` by the simplifier; an indexed collection)
        forms = [(name, tmpl, "var") for name, tmpl, _ in REFUSALS]
        forms += [(name + "_on_expression_receiver", tmpl, "expr") for name, tmpl, _ in REFUSALS if "j.{" in tmpl or "j.get" in tmpl]
        forms += [(name + "_on_indexed_receiver", tmpl.replace("j.", f"e.{C}('A')[0].").replace("(j.pt(), j.eta())", "(1.0, 2.0)"), "event") for name, tmpl, _ in REFUSALS if "j.{M}" in tmpl or "j.get" in tmpl]
        for name, tmpl, where in forms:
            body = tmpl.format(F='TwoArg', M='OneArgM')
            q = {"var": f"ds.SelectMany(lambda e: e.{C}('A')).Select(lambda j: {body})",
                 "expr": f"ds.Select(lambda e: e.{C}('A').First()).Select(lambda j: {body})",
                 "event": f"ds.Select(lambda e: {body})"}[where]
            if "getAttributeFloat" in q and backend != "atlas":
                continue
            IO = {"metadata_type": "add_cpp_function", "name": "IOnly", "include_files": [], "arguments": ["f"], "code": ["auto result = f * 1000.0;"], "return_type": "double", "instance_object": "X"}
            full = diff.attach_metadata(q, [F, M, IO])
            reqs.append({"args": {"backend": backend, "query": full, "out": str(ctx.scratch / f"ref{len(reqs)}")}})
            meta.append((backend, name, q))
    for (backend, name, q), r in zip(meta, run_batch(reqs, ctx.scratch)):
        ctx.count("evaluations")
        ctx.count("refusal_cases")
        if r["status"] == "ok":
            ctx.violation({"backend": backend, "query": q}, f"[{backend}] call with {name} was accepted: {q}")
        else:
            ctx.seen((backend, "refusal", name))
    if ctx.counters["contract_evaluations"] == 0:
        ctx.inconclusive.append("the contract on process_ast_node was never evaluated")
    return ctx.finish("exploration", RULE, ASSUME)
