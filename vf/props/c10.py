"""C10 - declared method, collection-return and enum types are honoured exactly.

One rich schema per backend holds a method for every declared-signature form (value, object by
value / pointer / const pointer / pointer to pointer, collections by value / reference / pointer
of scalars / objects / object pointers, deref_count 1 and 2 through operator-> / operator*
layers, tree_type, enums in a nested scope as comparison operand, argument and output,
undeclared).  The model classes are GENERATED FROM THE SAME DECLARATIONS the query carries, the
emitted code is compiled and run against them and compared with Python; a contract on
base_type_member_access checks '.', '->', '(*x)->' against the total indirection."""
from __future__ import annotations

import itertools
import json
import types
from pathlib import Path
from typing import Any, Dict, List, Optional, Tuple

from .. import diff, evgen, schema as sch, shrink
from ..core import Ctx, ensure_deps
from ..schema import fn, num, obj, objvec, vec
from . import common
from .c13 import type_class

RULE = ("every declared-signature form x chain templates of length 1-4 (member of result, member of member, index / First / Count / Select / Sum over declared collections, enum compare / argument / "
        "output, arithmetic on results) x 2 backends (elements by pointer and by value) x random events; distinct = distinct (backend, signature form, chain template); non-trivial = every case")
ASSUME = ["model classes are generated from the very declarations sent with the query (vf/edm.py), so 'compiles and computes the same values' means the declaration was honoured",
          "a warning record per undeclared (type, method) is observed with a logging handler in the translating process"]


def md_method(tname, mname, **kw):
    d = {"metadata_type": "add_method_type_info", "type_string": tname, "method_name": mname}
    d.update(kw)
    return d


HINTING_NAMES = ["isEMFrac", "hasTrackProb", "passScore", "passesCut", "nHitsFrac", "numLayers", "countOf", "getIndex", "is_ok", "flag"]


def c10_schema(backend: str) -> Dict[str, Any]:
    s = sch.clone(sch.fixed(backend))
    main = s["main"]["coll"]
    jet = s["collections"][main]["element"]
    lib = {"lib": "xAODJet"} if backend == "atlas" else {}
    hdr = "NS/Obj.h" if backend == "atlas" else "NS/Obj/interface/Obj.h"
    O = "ns::Obj"
    s["classes"][O] = {"header": hdr, **lib, "members": {
        "val": num(), "n": num("int"), "hasNext": num("bool"), "und": num("double", declared=False), "vals": vec("double", md=md_method(O, "vals", return_type_element="double")),
        "next": obj(O, 1, nullable=True, md=md_method(O, "next", return_type=O + "*")),
    }}
    s["classes"]["ns::Inner"] = {"header": hdr.replace("Obj", "Inner"), **lib, "members": {
        "inner_val": num("double", declared=True), "inner_n": num("int", declared=True), "inner_obj": obj(O, 1, declared=True),
        "inner_vals": vec("double"), "inner_objs": objvec(O, 1), "inner_f": sch.field("int")}}
    s["classes"]["ns::Wrap"] = {"header": hdr.replace("Obj", "Wrap"), **lib, "deref_to": ["ns::Inner"], "members": {"own": num()}}
    s["classes"]["ns::Wrap2"] = {"header": hdr.replace("Obj", "Wrap2"), **lib, "deref_to": ["ns::Wrap"], "members": {"own2": num()}}
    # members reached THROUGH the dereference layers are declared on the wrapper type with a deref_count
    for w, dc in (("ns::Wrap", 1), ("ns::Wrap2", 2)):
        s["classes"]["ns::Inner"]["members"]["inner_val"].setdefault("md", []).append(md_method(w, "inner_val", return_type="double", deref_count=dc))
        s["classes"]["ns::Inner"]["members"]["inner_n"].setdefault("md", []).append(md_method(w, "inner_n", return_type="int", deref_count=dc))
        s["classes"]["ns::Inner"]["members"]["inner_obj"].setdefault("md", []).append(md_method(w, "inner_obj", return_type=O + "*", deref_count=dc))
        # a public DATA member reached through the dereference layers (read without call parentheses)
        s["classes"]["ns::Inner"]["members"]["inner_f"].setdefault("md", []).append(md_method(w, "inner_f", return_type="int", deref_count=dc))
        # COLLECTION-returning members reached through the dereference layers
        s["classes"]["ns::Inner"]["members"]["inner_vals"].setdefault("md", []).append(md_method(w, "inner_vals", return_type_element="double", deref_count=dc))
        s["classes"]["ns::Inner"]["members"]["inner_objs"].setdefault("md", []).append(md_method(w, "inner_objs", return_type_element=O + "*", return_type_collection=f"std::vector<{O}*>", deref_count=dc))
    J = s["classes"][jet]
    J["enums"] = {"Color": ["Red", "Blue", "Green"]}
    m = J["members"]
    m["m_uint"] = num("unsigned int", md=md_method(jet, "m_uint", return_type="unsigned int"))
    m["m_short"] = num("short", md=md_method(jet, "m_short", return_type="short"))
    # const-qualified VALUE returns (as copied from a C++ signature): the qualifier says nothing about the variables and columns made from it
    m["c_f"] = num("float", md=md_method(jet, "c_f", return_type="const float"))
    m["c_i"] = num("int", md=md_method(jet, "c_i", return_type="const int"))
    m["c_d"] = num("double", declared=True, md=md_method(jet, "c_d", return_type="const double"))
    m["und"] = num("double", declared=False)
    # undeclared members whose NAMES suggest another type (predicates, counters): the documented assumption is double, whatever the name
    for hn in HINTING_NAMES:
        m[hn] = num("double", declared=False)
    m["hasField"] = sch.field("double")
    m["nField"] = sch.field("double")
    # two classes whose names differ by a version suffix only, with the same member names declared differently
    s["classes"]["ns::Hit"] = {"header": hdr.replace("Obj", "Hit"), **lib, "members": {
        "time": num("int", md=md_method("ns::Hit", "time", return_type="int")), "pos": obj(O, 1, md=md_method("ns::Hit", "pos", return_type=O + "*")),
        "charge": num("double", declared=False)}}
    s["classes"]["ns::Hit_v2"] = {"header": hdr.replace("Obj", "Hit_v2"), **lib, "members": {
        "time": num("double", declared=False), "pos": obj(O, 0, md=md_method("ns::Hit_v2", "pos", return_type=O)),
        "charge": num("int", md=md_method("ns::Hit_v2", "charge", return_type="int"))}}
    m["hit"] = obj("ns::Hit", 0, md=md_method(jet, "hit", return_type="ns::Hit"))
    m["hit2"] = obj("ns::Hit_v2", 0, md=md_method(jet, "hit2", return_type="ns::Hit_v2"))
    m["t_big"] = num("unsigned long long", md=md_method(jet, "t_big", return_type="unsigned long long", tree_type="int"))
    m["t_dbl"] = num("double", declared=True, md=md_method(jet, "t_dbl", return_type="double", tree_type="float"))
    m["o_val"] = obj(O, 0, md=md_method(jet, "o_val", return_type=O))
    m["o_ptr"] = obj(O, 1, md=md_method(jet, "o_ptr", return_type=O + "*"))
    m["o_cptr"] = obj(O, 1, md=md_method(jet, "o_cptr", return_type="const " + O + "*"))
    m["o_pp"] = obj(O, 2, md=md_method(jet, "o_pp", return_type=O + "**"))
    m["v_f"] = vec("float", md=md_method(jet, "v_f", return_type_element="float"))
    m["v_i_coll"] = vec("int", md=md_method(jet, "v_i_coll", return_type_element="int", return_type_collection="std::vector<int>"))
    m["v_d_cref"] = vec("double", ret_by="cref", md=md_method(jet, "v_d_cref", return_type_element="double"))
    m["v_f_ptr"] = vec("float", ret_by="ptr", md=md_method(jet, "v_f_ptr", return_type_element="float", return_type_collection="std::vector<float>*"))
    m["ov_ptr"] = objvec(O, 1, md=md_method(jet, "ov_ptr", return_type_element=O + "*"))
    m["ov_val"] = objvec(O, 0, md=md_method(jet, "ov_val", return_type_element=O))
    m["ov_ptr_cp"] = objvec(O, 1, ret_by="ptr", md=md_method(jet, "ov_ptr_cp", return_type_element=O + "*", return_type_collection=f"std::vector<{O}*>*"))
    m["w"] = obj("ns::Wrap", 0, md=md_method(jet, "w", return_type="ns::Wrap"))
    m["w2"] = obj("ns::Wrap2", 0, md=md_method(jet, "w2", return_type="ns::Wrap2"))
    # total indirection 2, 3 and 4: pointer depth of the returned wrapper + deref_count of the member reached through it
    m["w_p"] = obj("ns::Wrap", 1, md=md_method(jet, "w_p", return_type="ns::Wrap*"))
    m["w2_p"] = obj("ns::Wrap2", 1, md=md_method(jet, "w2_p", return_type="ns::Wrap2*"))
    m["w2_pp"] = obj("ns::Wrap2", 2, md=md_method(jet, "w2_pp", return_type="ns::Wrap2**"))
    m["color"] = {"k": "enum", "enum": "Color", "declared": True, "md": md_method(jet, "color", return_type=jet + "::Color", tree_type="int")}
    m["isColor"] = fn("bool", [("c", "Color")], '(int)c == (int)o->num("color")', lambda o, c: c == o["color"], md=md_method(jet, "isColor", return_type="bool"))
    s["c10_enum"] = {"metadata_type": "define_enum", "namespace": jet.replace("::", "."), "name": "Color", "values": ["Red", "Blue", "Green"]}
    # an enum three scope levels deep (namespace . class . nested struct)
    J["nested_enums"] = {"Detail": {"Level": ["Loose", "Medium", "Tight"]}}
    m["level"] = {"k": "enum", "enum": "Detail::Level", "nvalues": 3, "declared": True, "md": md_method(jet, "level", return_type=jet + "::Detail::Level", tree_type="int")}
    m["isLevel"] = fn("bool", [("l", "Detail::Level")], '(int)l == (int)o->num("level")', lambda o, l: l == o["level"], md=md_method(jet, "isLevel", return_type="bool"))
    s["c10_enum3"] = {"metadata_type": "define_enum", "namespace": jet.replace("::", ".") + ".Detail", "name": "Level", "values": ["Loose", "Medium", "Tight"]}
    # a user declaration that OVERRIDES a method type the backend installs by default
    if backend == "atlas":
        tp = s["classes"]["xAOD::TruthParticle"]["members"]
        tp["prodVtx"] = obj(O, 1, md=md_method("xAOD::TruthParticle", "prodVtx", return_type=O + "*"))
        s["c10_override"] = ("TruthParticles", "TP", "prodVtx().n()", "int")
    else:
        m["isPFMuon"] = num("int", md=md_method(jet, "isPFMuon", return_type="int"))
        s["c10_override"] = (main, "A", "isPFMuon()", "int")
    return s


def enum_globals(s, backend) -> Dict[str, Any]:
    jet = s["collections"][s["main"]["coll"]]["element"]
    parts = jet.split("::")
    leaf = types.SimpleNamespace(Color=types.SimpleNamespace(Red=0, Blue=1, Green=2), Detail=types.SimpleNamespace(Level=types.SimpleNamespace(Loose=0, Medium=1, Tight=2)))
    node = leaf
    for p in reversed(parts[1:]):
        node = types.SimpleNamespace(**{p: node})
    return {parts[0]: node}


def templates(s, backend) -> List[Tuple[str, str, str]]:
    "(signature form, chain template name, element-level expression over j)"
    jet = s["collections"][s["main"]["coll"]]["element"]
    E = jet.replace("::", ".") + ".Color"
    T: List[Tuple[str, str, str]] = []
    for mth in ("nTrk", "m_uint", "m_short", "width", "isGood", "und", "t_big", "t_dbl", "c_f", "c_i", "c_d"):
        T += [(mth, "value", f"j.{mth}()"), (mth, "arith", f"(j.{mth}() * 2 + 1)"), (mth, "compare", f"(j.{mth}() > 1)"),
              # the same bare value one level deeper: a vector-of-vectors column carries the declared (tree) type too
              (mth, "nested_value", f"j.v_f().Select(lambda v: j.{mth}())")]
    for mth in HINTING_NAMES:
        T += [(mth, "undeclared_hinting_name_value", f"j.{mth}()"), (mth, "undeclared_hinting_name_arith", f"(j.{mth}() / 2 + 1)"), (mth, "undeclared_hinting_name_nested", f"j.v_f().Select(lambda v: j.{mth}())")]
    T += [("hasField", "undeclared_hinting_data_member", "j.hasField"), ("nField", "undeclared_hinting_data_member", "(j.nField * 2)")]
    # version-suffixed twin classes: each follows its own declarations
    T += [("hit", "twin_declared_int", "j.hit().time()"), ("hit2", "twin_undeclared", "j.hit2().time()"), ("hit", "twin_both", "(j.hit().time() + j.hit2().time())"),
          ("hit", "twin_pointer_member", "j.hit().pos().val()"), ("hit2", "twin_value_member", "j.hit2().pos().val()"), ("hit2", "twin_both_rev", "(j.hit2().charge() - j.hit().charge())"),
          ("hit", "twin_both_members", "(j.hit().pos().n() + j.hit2().pos().n())")]
    for mth in ("o_val", "o_ptr", "o_cptr", "o_pp"):
        T += [(mth, "member", f"j.{mth}().val()"), (mth, "member_int", f"j.{mth}().n()"), (mth, "member_arith", f"(j.{mth}().val() + j.{mth}().n())"),
              (mth, "member_collection", f"j.{mth}().vals().Count()"), (mth, "member_collection_sum", f"j.{mth}().vals().Sum()"),
              (mth, "chain2_guarded", f"(j.{mth}().next().val() if j.{mth}().hasNext() else -1.0)"),
              (mth, "chain3_guarded", f"(j.{mth}().next().next().n() if (j.{mth}().hasNext() and j.{mth}().next().hasNext()) else -1)")]
    for mth in ("v_f", "v_i_coll", "v_d_cref", "v_f_ptr"):
        T += [(mth, "count", f"j.{mth}().Count()"), (mth, "sum", f"j.{mth}().Sum()"), (mth, "select", f"j.{mth}().Select(lambda v: v * 2)"),
              (mth, "where_count", f"j.{mth}().Where(lambda v: v > 5).Count()"), (mth, "index_guarded", f"(j.{mth}()[0] if j.{mth}().Count() > 0 else -1)"),
              (mth, "index1_guarded", f"(j.{mth}()[1] if j.{mth}().Count() > 1 else -1)"), (mth, "first_guarded", f"(j.{mth}().First() if j.{mth}().Count() > 0 else -1)")]
    for mth in ("ov_ptr", "ov_val", "ov_ptr_cp", "tracks"):
        mem = "val" if mth != "tracks" else "pt"
        T += [(mth, "count", f"j.{mth}().Count()"), (mth, "select_member", f"j.{mth}().Select(lambda o: o.{mem}())"), (mth, "sum_member", f"j.{mth}().Select(lambda o: o.{mem}()).Sum()"),
              (mth, "index_member_guarded", f"(j.{mth}()[0].{mem}() if j.{mth}().Count() > 0 else -1.0)"), (mth, "first_member_guarded", f"(j.{mth}().First().{mem}() if j.{mth}().Count() > 0 else -1.0)"),
              (mth, "where_member", f"j.{mth}().Where(lambda o: o.{mem}() > 10.0).Count()")]
        if mth != "tracks":
            T += [(mth, "nested_collection", f"j.{mth}().Select(lambda o: o.vals().Count())"), (mth, "chain_next_guarded", f"j.{mth}().Where(lambda o: o.hasNext()).Select(lambda o: o.next().val())")]
    for mth in ("w", "w2", "w_p", "w2_p", "w2_pp"):
        T += [(mth, "deref_value", f"j.{mth}().inner_val()"), (mth, "deref_int", f"j.{mth}().inner_n()"), (mth, "deref_then_member", f"j.{mth}().inner_obj().val()"),
              (mth, "deref_arith", f"(j.{mth}().inner_val() * 2 - j.{mth}().inner_n())")]
        T += [(mth, "deref_data_member", f"j.{mth}().inner_f"), (mth, "deref_data_member_arith", f"(j.{mth}().inner_f * 2 + j.{mth}().inner_n())")]
        T += [(mth, "deref_collection_count", f"j.{mth}().inner_vals().Count()"), (mth, "deref_collection_sum", f"j.{mth}().inner_vals().Sum()"),
              (mth, "deref_collection_select", f"j.{mth}().inner_vals().Select(lambda v: v * 2)"), (mth, "deref_object_collection", f"j.{mth}().inner_objs().Select(lambda o: o.val())"),
              (mth, "deref_object_collection_where", f"j.{mth}().inner_objs().Where(lambda o: o.n() > 2).Count()")]
    T += [("w", "own_member", "j.w().own()"), ("w2", "own_member", "j.w2().own2()")]
    # the same undeclared method name on two different types: each is assumed double, each is warned about
    T += [("und", "same_name_two_types", "(j.und() + j.o_ptr().und())"), ("und", "same_name_two_types_rev", "(j.o_val().und() - j.und())")]
    E3 = jet.replace("::", ".") + ".Detail.Level"
    T += [("enum3", "compare", f"(j.level() == {E3}.Tight)"), ("enum3", "argument", f"j.isLevel({E3}.Medium)"), ("enum3", "output", "j.level()"),
          ("enum3", "conditional", f"(1.0 if j.level() != {E3}.Loose else 2.0)")]
    # math functions applied directly to results reached through one and two dereferences
    for mth in ("o_ptr", "o_pp", "w", "w2", "w2_p"):
        mem = "val()" if mth.startswith("o_") else "inner_val()"
        T += [(mth, "math_on_member", f"sqrt(abs(j.{mth}().{mem}))"), (mth, "math2_on_member", f"atan2(j.{mth}().{mem}, j.pt())"), (mth, "abs_on_member_arith", f"(abs(j.{mth}().{mem}) + 1)")]
    T += [("enum", "compare", f"(j.color() == {E}.Red)"), ("enum", "compare_ne", f"(j.color() != {E}.Green)"), ("enum", "argument", f"j.isColor({E}.Blue)"), ("enum", "output", "j.color()"), ("enum", "nested_output", "j.v_f().Select(lambda v: j.color())"),
          ("enum", "conditional", f"(1.0 if j.color() == {E}.Blue else 2.0)")]
    return T


def contract_monitor(args, phase, state):
    "total indirection => '.', '->', '(*x)->' (icontract post-condition on the real base_type_member_access)"
    if phase != "before":
        return
    ensure_deps()
    import icontract
    import func_adl_xAOD.common.cpp_representation as crep
    import func_adl_xAOD.common.ast_to_cpp_translator as tr

    state["access_contract_evals"] = 0
    state["access_contract_failures"] = []

    def rule(v, extra_deref, result):
        state["access_contract_evals"] += 1
        depth = extra_deref + v.cpp_type().p_depth
        base = v.as_cpp()
        want = base
        for _ in range(max(depth - 1, 0)):
            want = f"(*{want})"
        want += "->" if depth > 0 else "."
        if result != want:
            state["access_contract_failures"].append(f"access to {base!r} with total indirection {depth} rendered as {result!r}, expected {want!r}")
        return True

    class Broken(Exception):
        pass
    w = icontract.ensure(rule, error=Broken)(crep.base_type_member_access)
    crep.base_type_member_access = w


def run(ctx: Ctx) -> int:
    eng = diff.Engine(ctx)
    backends = ["atlas", "cms_aod"] + ([] if ctx.quick else ["cms_miniaod"])
    schemas = {b: c10_schema(b) for b in backends}
    if ctx.replay:
        rep = common.load_replay(ctx.replay)["case"]
        s = c10_schema(rep["backend"])
        c = diff.Case(rep["backend"], rep["query"], rep["events"], [], schema=s, extra_globals=enum_globals(s, rep["backend"]))
        res = []
        diff.differential(ctx, eng, [c], lambda cc, r: res.append(r))
        k = shrink.failure_kind(res[0])
        print("replay:", k, common.describe(res[0]) if k else "held")
        return 1 if k else 0
    cases: List[diff.Case] = []
    for b in backends:
        s = schemas[b]
        C = s["main"]["coll"]
        T = templates(s, b)
        evs = [evgen.gen_event(s, ctx.rng("ev", b, k), p) for k, p in enumerate(["dense", "mixed", "dense", "single", "empty", "dense"][: ctx.pick(4, 6)])]
        g = enum_globals(s, b)
        nrep = ctx.pick(1, 3)
        for form, tname, expr in T:
            for rep in range(nrep):
                R = ctx.rng("c10", b, form, tname, rep)
                shape = R.choice(["event_list", "object_row", "event_where"]) if not expr.endswith(")") or ".Select(" not in expr else "event_list"
                if ".Select(" in expr or ".Where(lambda o: o.hasNext()" in expr:
                    shape = "event_list"
                if shape == "event_list":
                    q = f"ds.Select(lambda e: e.{C}('A').Select(lambda j: {expr}))"
                elif shape == "object_row":
                    q = f"ds.SelectMany(lambda e: e.{C}('A')).Select(lambda j: ({expr}, j.pt()))"
                else:
                    q = f"ds.Select(lambda e: e.{C}('A').Where(lambda j: j.pt() > 5.0).Select(lambda j: {expr}))"
                md = diff.members_used(s, q)
                if "Color" in q:
                    md = md + [s["c10_enum"]]
                if "Detail.Level" in q:
                    md = md + [s["c10_enum3"]]
                cases.append(diff.Case(b, q, evs, md, schema=s, tag={"form": form, "template": tname, "shape": shape, "expr": expr}, extra_globals=g))
    # override of a backend default: the user's declaration must win
    for b in backends:
        s = schemas[b]
        coll, bank, expr, want = s["c10_override"]
        q = f"ds.Select(lambda e: e.{coll}('{bank}').Select(lambda p: p.{expr}))"
        evs = [evgen.gen_event(s, ctx.rng("evo", b, k), "dense") for k in range(3)]
        cases.append(diff.Case(b, q, evs, diff.members_used(s, q), schema=s, tag={"form": "override_default", "template": "value", "shape": "event_list", "expr": expr, "want_type": want},
                               extra_globals=enum_globals(s, b)))
    trs = eng.translate(cases, monitors=["vf.props.c10:contract_monitor"])
    for c in cases:
        eng.model(c.backend, c.schema)
    from ..core import parallel_map

    def work(item):
        case, tr = item
        res: Dict[str, Any] = {"translate": tr}
        if tr["status"] != "ok":
            return res
        try:
            res["refs"] = eng.reference(case)
        except Exception as e:
            res["harness"] = f"reference failed: {type(e).__name__}: {e}"
            return res
        br = eng.build_and_run(case)
        res["build"] = br["build"]
        if br["build"]["ok"]:
            res["run"] = br["runs"][0]
            res["verdict"] = eng.judge(case, br["runs"][0], res["refs"])
        return res
    results = parallel_map(work, list(zip(cases, trs)))
    known = ctx.known_entries()
    for c, r in zip(cases, results):
        ctx.count("evaluations")
        t = c.tag
        mon = r["translate"].get("monitor", {})
        ctx.count("member_access_contract_evaluations", mon.get("access_contract_evals", 0))
        if mon.get("access_contract_failures"):
            ctx.violation(c.replay(), f"[{c.backend}] contract on base_type_member_access: {mon['access_contract_failures'][0]} :: {c.query[:200]}")
            continue
        kind = shrink.failure_kind(r)
        if kind in ("harness", "timeout"):
            ctx.count("harness_errors")
            ctx.notes.append((str(r.get("harness") or r.get("verdict", {}).get("harness")) + " :: " + c.query[:100])[:300])
            continue
        why = f"{kind}: {common.describe(r)}" if kind else None
        if why is None:
            # declared / tree types of output columns
            br = r["run"]["book"][0]["branches"][0]["type"]
            base = br.replace("std::vector<", "").replace(">", "").strip()
            want = {"nTrk": "int", "m_uint": "unsigned int", "m_short": "short", "width": "float", "isGood": "bool", "und": "double", "t_big": "int", "t_dbl": "float"}
            if t["template"] in ("value", "nested_value") and t["form"] in want and base != want[t["form"]]:
                why = f"column of a bare declared method {t['form']}() is booked as {br}, declared (tree) type is {want[t['form']]}"
            if t.get("want_type") and base != t["want_type"]:
                why = f"user declaration overriding a backend default is not honoured: column booked as {br}, declared {t['want_type']}"
            if t["form"] in ("enum", "enum3") and t["template"] in ("output", "nested_output") and base != "int":
                why = f"enum output declared with tree_type int is booked as {br}"
            if t["form"] == "und":
                logs = [l for l in r["translate"]["logs"] if l["level"] == "WARNING" and "::und(" in l["msg"] and "double" in l["msg"]]
                ctx.count("undeclared_method_warnings_seen", len(logs))
                if not logs:
                    why = "no warning was logged for the undeclared method und()"
                if t["template"].startswith("same_name_two_types"):
                    types_warned = {l["msg"].split("'")[1].rsplit("::", 1)[0] for l in logs if "'" in l["msg"]}
                    if len(types_warned) < 2:
                        why = f"und() is undeclared on two types but a warning was logged for {sorted(types_warned)} only"
        if why:
            hit = next((f for f in known if t["form"] in f.get("forms", []) and (not f.get("templates") or t["template"] in f["templates"])), None)
            if hit:
                ctx.known_hits[hit["key"]] += 1
                ctx.known_finding(hit["key"], hit["mechanism"][:170] + f" [witness: {c.backend} {t['expr']} -> {why[:120]}]")
                continue
            ctx.violation(c.replay(), f"[{c.backend}] signature {t['form']} / chain {t['template']}: {why} :: {c.query[:220]}")
            continue
        ctx.count("jobs_compiled_and_run")
        ctx.count("rows_compared", r["verdict"]["rows"])
        ctx.seen((c.backend, t["form"], t["template"]))
        if t["template"] in ("deref_value", "member", "select_member", "compare") and len(ctx.samples) < 6:
            ctx.sample({"backend": c.backend, "signature": t["form"], "chain": t["template"], "query": c.query[:180], "rows_compared": r["verdict"]["rows"]}, 6)
    if ctx.counters["member_access_contract_evaluations"] == 0:
        ctx.inconclusive.append("contract on base_type_member_access never evaluated")
    return ctx.finish("exploration", RULE, ASSUME)
