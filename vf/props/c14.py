"""C14 - injected code blocks land once, in order, in their documented places.

Every payload line carries a unique tag, so each occurrence in the rendered package is
unambiguous.  Oracle: per field, the tagged lines found in the field's structural region are
exactly the lines of the distinct blocks (each once, text unaltered, per-block order kept) and
no tagged line occurs anywhere else; conflicts / unknown fields must raise."""
from __future__ import annotations

import json
import re
from pathlib import Path
from typing import Any, Dict, List, Optional, Tuple

from .. import cxx, diff, evgen, schema as sch
from ..core import Ctx, parallel_map
from ..xlate import run_batch

FIELDS = ["body_includes", "header_includes", "private_members", "instance_initialization", "ctor_lines", "initialize_lines", "link_libraries"]
RULE = ("random multisets of 0-6 inject_code blocks over all subsets of the 7 fields, uniquely tagged payload lines incl. jinja-special sequences, quotes, "
        "backslashes, unicode, surrounding blanks; duplicates (identical / same name other content / same content other name) and unknown fields; "
        "distinct = distinct (fields used, duplicate pattern, payload classes, backend); non-trivial = at least 2 blocks or 2 fields")
ASSUME = ["regions are located structurally in the rendered files by the fixed anchor lines of the repository's templates",
          "a sample is additionally compiled against the model EDM with well-formed payloads"]

SPECIALS = ["{{ x }}", "{% if y %}", "{# c #}", "a < b && c > d", 'q"uote', "back\\slash \\n", "tab\there", "ünï©ode ✓", "%s %d", "$HOME `x`", "#pragma once", "'single'", "}}{{", "{%- raw %}"]


def payload(R, field: str, tag: str, hostile: bool) -> str:
    """one line for `field`, carrying the unique tag"""
    sp = R.choice(SPECIALS) if hostile else ""
    if field in ("body_includes", "header_includes"):
        return f"inc_{tag}{'_' + sp if hostile and R.random() < 0.5 else ''}.h"
    if field == "link_libraries":
        return f"Lib{tag}" + (R.choice(["-x", "{{y}}", "{%z%}", "++", "ü"]) if hostile else "")
    if field == "private_members":
        base = f"int m_{tag} = 0; // {tag}"
    elif field == "instance_initialization":
        return f"m_i{tag}({len(tag)})" + (f" /* {sp.replace('*/', '')} */" if hostile else "")
    else:
        base = f"{{ int v_{tag} = 1; (void)v_{tag}; }} // {tag}"
    if hostile:
        base += " " + sp
        if R.random() < 0.3:
            base = "   " + base
        if R.random() < 0.3:
            base = base + "   "
    return base


def gen_blocks(R, idx: int) -> Tuple[List[Dict[str, Any]], Dict[str, Any]]:
    """Returns (metadata list, expectation)"""
    nb = R.choice([0, 1, 1, 2, 3, 4, 6])
    hostile = R.random() < 0.6
    blocks: List[Dict[str, Any]] = []
    n = 0
    for b in range(nb):
        fields = [f for f in FIELDS if R.random() < 0.45] or [R.choice(FIELDS)]
        blk: Dict[str, Any] = {"metadata_type": "inject_code", "name": f"blk{idx}_{b}"}
        for f in fields:
            lines = []
            for _ in range(R.choice([1, 1, 2, 3])):
                n += 1
                lines.append(payload(R, f, f"T{idx}x{n}", hostile))
            blk[f] = lines
        # initialisers need their members (so that well-formed samples compile)
        for l in blk.get("instance_initialization", []):
            blk.setdefault("private_members", []).append("int " + l.split("(")[0] + ";")
        blocks.append(blk)
    mode = R.choice(["plain", "plain", "plain", "dup_identical", "dup_conflict", "dup_content_other_name", "unknown_field", "shared_line", "same_file_body_and_header",
                     "unknown_field_only", "name_only_twin", "case_variants", "dup_reordered", "dup_repeated_line", "same_basename_includes"]) if nb else "plain"
    expect_error = None
    if mode == "dup_identical":
        b = R.choice(blocks)
        blocks.insert(R.randrange(len(blocks) + 1), json.loads(json.dumps(b)))
    elif mode == "dup_conflict":
        b = json.loads(json.dumps(R.choice(blocks)))
        f = R.choice(FIELDS)
        b[f] = list(b.get(f, [])) + [payload(R, f, f"T{idx}xC", False)]
        blocks.insert(R.randrange(len(blocks) + 1), b)
        expect_error = "same name, different content"
    elif mode == "dup_content_other_name":
        b = json.loads(json.dumps(R.choice(blocks)))
        b["name"] = b["name"] + "_twin"
        blocks.append(b)
    elif mode == "unknown_field":
        b = R.choice(blocks)
        b[R.choice(["body_include", "includes", "dtor_lines", "Name2"])] = ["x"]
        expect_error = "unknown field"
    elif mode == "unknown_field_only":
        # a block whose ONLY content sits under a misspelt field
        blocks.insert(R.randrange(len(blocks) + 1), {"metadata_type": "inject_code", "name": f"blk{idx}_typo", R.choice(["ctor_line", "link_library", "includes", "initialise_lines"]): ["x"]})
        expect_error = "unknown field"
    elif mode == "name_only_twin":
        # an empty block that shares its name with a block that has content: same name, different content
        b = R.choice(blocks)
        blocks.insert(R.randrange(len(blocks) + 1), {"metadata_type": "inject_code", "name": b["name"]})
        expect_error = "same name, different content"
    elif mode == "case_variants":
        # names that differ in letter case only are different names
        n += 1
        b1, b2 = R.choice(blocks), R.choice(blocks)
        f = R.choice(["body_includes", "header_includes", "link_libraries"])
        stem = f"T{idx}x{n}"
        a, c = (f"Pkg{stem}/Tool.h", f"Pkg{stem}/tool.h") if f != "link_libraries" else (f"Lib{stem}Tools", f"Lib{stem}tools")
        b1[f] = list(b1.get(f, [])) + [a]
        b2[f] = list(b2.get(f, [])) + [c]
    elif mode in ("dup_reordered", "dup_repeated_line"):
        cands = [(b, f) for b in blocks for f in FIELDS if len(b.get(f, [])) >= (2 if mode == "dup_reordered" else 1)]
        if cands:
            b0, f = R.choice(cands)
            b = json.loads(json.dumps(b0))
            if mode == "dup_reordered":
                b[f] = list(reversed(b[f]))
                if b[f] == b0[f]:
                    b[f] = b[f][1:] + b[f][:1]
            else:
                b[f] = list(b[f]) + [b[f][0]]
            if b[f] != b0[f]:
                blocks.insert(R.randrange(len(blocks) + 1), b)
                expect_error = "same name, different content"
    elif mode == "same_file_body_and_header":
        # one header named both as a source include and as a header include (of the same or of another block): both places get it
        n += 1
        line = payload(R, "body_includes", f"T{idx}x{n}", False)
        b1, b2 = R.choice(blocks), R.choice(blocks)
        b1["body_includes"] = list(b1.get("body_includes", [])) + [line]
        b2["header_includes"] = list(b2.get("header_includes", [])) + [line]
    elif mode == "same_basename_includes":
        # different headers that share a file name (one per package directory): both are asked for
        f = R.choice(["body_includes", "header_includes", "body_includes"])
        b1, b2 = R.choice(blocks), R.choice(blocks)
        b1[f] = list(b1.get(f, [])) + [f"PkgT{idx}xA/Helpers.h"]
        b2[f] = list(b2.get(f, [])) + [f"PkgT{idx}xB/interface/Helpers.h", f"PkgT{idx}xC/Helpers.h"]
    elif mode == "shared_line":
        f = R.choice(FIELDS)
        n += 1
        line = payload(R, f, f"T{idx}x{n}", False)
        for b in R.sample(blocks, min(2, len(blocks))):
            b[f] = list(b.get(f, [])) + [line]
    return blocks, {"mode": mode, "error": expect_error, "hostile": hostile}


def expected_lines(blocks: List[Dict[str, Any]]) -> Dict[str, List[List[str]]]:
    "per field: list of per-block line lists, over DISTINCT blocks (same name + identical content counts once)"
    seen: Dict[str, Dict[str, Any]] = {}
    order = []
    for b in blocks:
        if b["name"] in seen:
            continue
        seen[b["name"]] = b
        order.append(b)
    return {f: [list(b[f]) for b in order if b.get(f)] for f in FIELDS}


# ---------------------------------------------------------------- regions
def between(txt: str, a: str, b: str, from_end_of_a=True) -> Optional[str]:
    i = txt.find(a)
    if i < 0:
        return None
    i2 = i + (len(a) if from_end_of_a else 0)
    j = txt.find(b, i2)
    if j < 0:
        return None
    return txt[i2:j]


def regions(pkg: Path, backend: str) -> Optional[Dict[str, List[str]]]:
    out: Dict[str, List[str]] = {}
    if backend == "atlas":
        cxxt = (pkg / "query.cxx").read_text()
        ht = (pkg / "query.h").read_text()
        cm = (pkg / "package_CMakeLists.txt").read_text()
        r = between(cxxt, '#include "xAODRootAccess/tools/TFileAccessTracer.h"', "#include <TTree.h>")
        if r is None:
            return None
        out["body_includes"] = [m for m in re.findall(r'^#include "(.*)"$', r, re.M)]
        r = between(ht, "#include <AnaAlgorithm/AnaAlgorithm.h>", "class query : public EL::AnaAlgorithm")
        out["header_includes"] = [m for m in re.findall(r'^#include "(.*)"$', r or "", re.M)]
        r = between(ht, "// Class level variables", "};\n\n#endif")
        out["private_members"] = _lines(r, "  ")
        r = between(cxxt, ": EL::AnaAlgorithm (name, pSvcLocator)", "\n{\n  // Here you put any code for the base initialization")
        out["instance_initialization"] = [l[3:] for l in (r or "").split("\n") if l.startswith("  ,")]
        r = between(cxxt, "xAOD::TFileAccessTracer::enableDataSubmission(false);", "\n}\n\nStatusCode query :: initialize ()")
        out["ctor_lines"] = _lines(r, "  ")
        r = between(cxxt, "StatusCode query :: initialize ()", "StatusCode query :: execute ()")
        out["initialize_lines"] = _lines(r, "  ")
        m = re.search(r"LINK_LIBRARIES AnaAlgorithmLib (.*)\)\n\nif \(XAOD_STANDALONE\)", cm, re.S)
        out["link_libraries"] = m.group(1).split(" ") if m else []
        out["link_libraries"] = [x for x in out["link_libraries"] if x != ""]
    else:
        t = (pkg / "Analyzer.cc").read_text()
        r = between(t, "// extra headers", '#include "TTree.h"')
        out["body_includes"] = [m for m in re.findall(r'^#include "(.*)"$', r or "", re.M)]
    return out


def _lines(r: Optional[str], indent: str) -> List[str]:
    if r is None:
        return []
    return [l[len(indent):] if l.startswith(indent) else l for l in r.split("\n")]


def check_package(pkg: Path, backend: str, blocks: List[Dict[str, Any]]) -> Optional[str]:
    regs = regions(pkg, backend)
    if regs is None:
        return "structural anchors of the template not found in the rendered files"
    exp = expected_lines(blocks)
    fields = FIELDS if backend == "atlas" else ["body_includes"]
    alltext = {f.name: f.read_text() for f in pkg.iterdir() if f.is_file()}
    for f in fields:
        want_blocks = exp[f]
        got = regs[f]
        tagged = [l for l in got if re.search(r"T\d+x\w+", l)]
        want_flat = [l for b in want_blocks for l in b]
        if sorted(tagged) != sorted(want_flat):
            missing = [l for l in want_flat if l not in tagged]
            extra = [l for l in tagged if l not in want_flat]
            return f"field {f}: lines in region differ from the distinct blocks' lines: missing/changed={missing[:3]!r} unexpected/duplicated={extra[:3]!r} (counts {len(tagged)} vs {len(want_flat)})"
        # per-block order preserved (subsequence); with shared lines this is still decidable as a subsequence test
        for b in want_blocks:
            it = iter(tagged)
            if not all(any(x == l for x in it) for l in b):
                return f"field {f}: order of lines inside a block not preserved: block={b!r:.200} region={tagged!r:.300}"
    # nothing lands outside its place: total occurrences of each tag across all files == expected count
    counts: Dict[str, int] = {}
    for f in FIELDS:
        for b in exp[f]:
            for l in b:
                tag = re.search(r"T\d+x\w+", l).group(0)
                counts[tag] = counts.get(tag, 0) + (l.count(tag) if f in fields else 0)
    blob = "\n".join(alltext.values())
    for tag, n in counts.items():
        k = len(re.findall(re.escape(tag) + r"(?!\w)", blob))
        if k != n:
            return f"tag {tag} occurs {k} times in the package, expected {n} (a line landed outside its documented place, was dropped or duplicated)"
    return None


QUERY = {"atlas": "Select({ds}, lambda e: e.EventInfo('EventInfo').runNumber())",
         "cms_aod": "Select({ds}, lambda e: e.Muons('A').Count())",
         "cms_miniaod": "Select({ds}, lambda e: e.Muons('A').Count())"}


def make_query(backend: str, blocks, placement=None, extra_md=()) -> str:
    """placement None: every block on the dataset; else per block one of 'ds', 'after_where', 'inner_collection', 'discarded_element'
    (metadata may ride on any sub-expression of the query, also on a tuple element the rest of the query never uses).
    extra_md: other metadata (a C++ function, a collection declaration) attached to the dataset BEFORE / AFTER the blocks."""
    if not placement or all(p == "ds" for p in placement):
        src = "ds"
        for m in [m for m in extra_md if m.get("_where") == "inside"]:
            src = f"MetaData({src}, { {k: v for k, v in m.items() if k != '_where'}!r})"
        for b in blocks:
            src = f"MetaData({src}, {b!r})"
        for m in [m for m in extra_md if m.get("_where") != "inside"]:
            src = f"MetaData({src}, { {k: v for k, v in m.items() if k != '_where'}!r})"
        return QUERY[backend].format(ds=src)
    C = {"atlas": "Jets", "cms_aod": "Muons", "cms_miniaod": "Muons"}[backend]

    def wrap(expr, where):
        for b, pl in zip(blocks, placement):
            if pl == where:
                expr = f"MetaData({expr}, {b!r})"
        return expr
    q = wrap("ds", "ds")
    if "after_where" in placement:
        q = wrap(f"Where({q}, lambda e: e.{C}('W').Count() >= 0)", "after_where")
    ev = "e"
    if "discarded_element" in placement:
        carrier = wrap("e0", "discarded_element") + f".{C}('Carrier')"
        q = f"Select({q}, lambda e0: ({carrier}, e0))"
        ev = "t[1]"
        lam = "t"
    else:
        lam = "e"
    inner = wrap(ev, "inner_collection") + f".{C}('A')"
    return f"Select({q}, lambda {lam}: {inner}.Count())"


def contract_monitor(args, phase, state):
    "icontract post-condition on the real process_metadata: distinct inject blocks only (evaluation counted)"
    if phase != "before":
        return
    from ..core import ensure_deps
    ensure_deps()
    import icontract
    import func_adl_xAOD.common.meta_data as md
    import func_adl_xAOD.common.executor as ex

    state["process_metadata_evals"] = 0

    def dedup_rule(md_list, result):
        state["process_metadata_evals"] += 1
        names = [r.name for r in result if isinstance(r, md.InjectCodeBlock)]
        sent = [m.get("name") for m in md_list if m.get("metadata_type") == "inject_code" and len(m) > 1]
        if len(names) != len(set(names)):
            state["contract_fail"] = f"process_metadata returned duplicate inject blocks {names}"
        if set(names) != set(sent):
            state["contract_fail"] = f"process_metadata returned blocks {names} for sent {sent}"
        return True

    class Broken(Exception):
        pass
    w = icontract.ensure(dedup_rule, error=Broken)(md.process_metadata)
    md.process_metadata = w
    ex.process_metadata = w


def double_apply_worker(args):
    """A client that transforms the query twice on one executor (e.g. once to normalise / hash it, once to translate)
    and then writes: every injected line must still land exactly once."""
    from ..xlate import exc_info, executor_for, parse_query
    out = Path(args["out"])
    out.mkdir(parents=True, exist_ok=True)
    try:
        exe = executor_for(args["backend"])
        exe.apply_ast_transformations(parse_query(args["query"]))
        a = exe.apply_ast_transformations(parse_query(args["query"]))
        exe.write_cpp_files(a, out)
        return {"status": "ok", "monitor": {}}
    except BaseException as e:  # noqa: B036
        return {"status": "raised", "exc": exc_info(e), "monitor": {}}


def run(ctx: Ctx) -> int:
    n = ctx.pick(1200, 12000)
    cases = []
    if ctx.replay:
        rep = json.loads(Path(ctx.replay).read_text())["case"]
        cases = [(rep["backend"], rep["blocks"], rep["expect"])]
    else:
        for i in range(n):
            R = ctx.rng("c14", i)
            backend = R.choice(["atlas", "atlas", "atlas", "cms_aod", "cms_miniaod"])
            blocks, exp = gen_blocks(R, i)
            if blocks and R.random() < 0.2:
                # blocks riding on other parts of the query than the dataset
                exp["placement"] = [R.choice(["ds", "after_where", "inner_collection", "discarded_element"]) for _ in blocks]
            elif blocks and R.random() < 0.15:
                # a block that shares its NAME with another kind of declaration of the same query (a C++ function, an event collection):
                # names of different kinds of metadata have nothing to do with one another
                nm = blocks[0]["name"]
                kind = R.choice(["function", "collection"])
                if kind == "function":
                    m = {"metadata_type": "add_cpp_function", "name": nm, "include_files": [], "arguments": ["x"], "code": ["auto result = x;"], "return_type": "double"}
                else:
                    m = {"atlas": {"metadata_type": "add_atlas_event_collection_info", "name": nm, "include_files": ["xAODJet/JetContainer.h"], "container_type": "xAOD::JetContainer", "element_type": "xAOD::Jet", "contains_collection": True},
                         "cms_aod": {"metadata_type": "add_cms_aod_event_collection_info", "name": nm, "include_files": ["DataFormats/MuonReco/interface/Muon.h"], "container_type": "reco::MuonCollection", "element_type": "reco::Muon", "contains_collection": True, "element_pointer": False},
                         "cms_miniaod": {"metadata_type": "add_cms_miniaod_event_collection_info", "name": nm, "include_files": ["DataFormats/PatCandidates/interface/Muon.h"], "container_type": "pat::MuonCollection", "element_type": "pat::Muon", "contains_collection": True, "element_pointer": False}}[backend]
                m["_where"] = R.choice(["inside", "outside"])
                exp["extra_md"] = [m]
                exp["mode"] = exp["mode"] + "+name_shared_with_" + kind
            cases.append((backend, blocks, exp))
    reqs = [{"args": {"backend": b, "query": make_query(b, blocks, exp.get("placement"), exp.get("extra_md", ())), "out": str(ctx.scratch / f"p{i}"), "monitors": ["vf.props.c14:contract_monitor"]}}
            for i, (b, blocks, exp) in enumerate(cases)]
    # every 12th case is driven through "transform twice, then write" on one executor
    for i, rq in enumerate(reqs):
        if i % 12 == 5 and not ctx.replay:
            rq["fn"] = "vf.props.c14:double_apply_worker"
            cases[i][2]["double_apply"] = True
    res = run_batch(reqs, ctx.scratch)
    compile_sample = []
    for i, ((backend, blocks, exp), r) in enumerate(zip(cases, res)):
        ctx.count("evaluations")
        case = {"backend": backend, "blocks": blocks, "expect": exp}
        if r["status"] in ("timeout", "harness_error"):
            ctx.count("harness_errors")
            ctx.notes.append(str(r)[:200])
            continue
        ctx.count("process_metadata_contract_evals", r.get("monitor", {}).get("process_metadata_evals", 0))
        if exp.get("double_apply"):
            ctx.count("double_apply_cases")
        if r.get("monitor", {}).get("contract_fail"):
            ctx.violation(case, "contract on process_metadata: " + r["monitor"]["contract_fail"])
            continue
        pkg = Path(reqs[i]["args"]["out"])
        if exp["error"]:
            ctx.count("refusal_cases")
            if r["status"] == "ok":
                ctx.violation(case, f"inject_code blocks with {exp['error']} were accepted (a package was returned)")
            elif r["exc"]["type"] != "ValueError":
                ctx.violation(case, f"inject_code blocks with {exp['error']}: raised {r['exc']['type']} instead of ValueError: {r['exc']['msg'][:200]}")
            else:
                ctx.seen(("refuse", exp["mode"], backend))
            continue
        if r["status"] != "ok":
            ctx.violation(case, f"valid inject_code blocks refused: {r['exc']['type']}: {r['exc']['msg'][:300]}")
            continue
        ctx.count("renderings_checked")
        why = check_package(pkg, backend, blocks)
        if why:
            ctx.violation(case, why)
            continue
        fields_used = tuple(sorted({f for b in blocks for f in FIELDS if b.get(f)}))
        ctx.seen((backend, exp["mode"], exp["hostile"], fields_used, len(blocks)), len(blocks) >= 2 or len(fields_used) >= 2)
        ctx.count("tagged_lines_located", sum(len(b.get(f, [])) for b in blocks for f in FIELDS))
        if len(blocks) >= 2:
            ctx.sample({"backend": backend, "mode": exp["mode"], "blocks": blocks[:2]}, 3)
        if backend == "atlas" and not exp["hostile"] and exp["mode"] in ("plain", "dup_identical") and len(compile_sample) < ctx.pick(24, 200):
            compile_sample.append((pkg, blocks))
    # compile a sample with well-formed payloads against the model EDM
    if compile_sample:
        from ..edm import Model
        model = Model(sch.clone(sch.fixed("atlas")), ctx.scratch / "model_atlas")

        def build(item):
            pkg, blocks = item
            jobdir = Path(str(pkg) + "_job")
            inc = jobdir / "inc"
            inc.mkdir(parents=True, exist_ok=True)
            exp = expected_lines(blocks)
            for f in ("body_includes", "header_includes"):
                for b in exp[f]:
                    for l in b:
                        (inc / l).write_text("// injected include\n")
            return cxx.build_job(model, pkg, jobdir)
        results = parallel_map(build, compile_sample)
        for (pkg, blocks), b in zip(compile_sample, results):
            if b is None:
                continue
            ctx.count("packages_compiled")
            if not b["ok"]:
                ctx.violation({"backend": "atlas", "blocks": blocks, "expect": {}}, f"package with well-formed injected code does not {b['stage']}: {b['errors'][:2]}")
    if ctx.counters["process_metadata_contract_evals"] == 0:
        ctx.inconclusive.append("contract on process_metadata never evaluated")
    return ctx.finish("exploration", RULE, ASSUME)
