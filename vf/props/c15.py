"""C15 - job-script blocks are emitted once each in dependency order.

Runtime contract (icontract post-condition, evaluation-counted) on the REAL
`generate_script_block`, driven exhaustively for small bounds and randomly beyond, plus the
same checker applied to the job-options region of ATestRun_eljob.py rendered by the real
executor from add_job_script metadata."""
from __future__ import annotations

import itertools
import json
import random
from pathlib import Path
from typing import Any, Dict, List, Optional, Tuple

from ..core import Ctx, ensure_deps
from ..xlate import run_batch

RULE = ("exhaustive: every arrival sequence of <=3 blocks over 3 names and <=4 blocks over 2 names, each block with every depends_on subset "
        "and script equal/different to its namesake's; random beyond (up to 30 blocks, DAGs, planted cycles, shared lines); distinct = distinct "
        "(dependency-graph shape, duplicate pattern, expected outcome) classes; non-trivial = at least 2 blocks")
ASSUME = ["the independent reference is Kahn's algorithm over the union of the dependencies of same-named blocks",
          "rendered job options are located between 'job.sampleHandler(sh)' and '# Create the algorithm' in ATestRun_eljob.py"]


# ---------------------------------------------------------------- independent reference
def expected_outcome(blocks: List[Tuple[str, List[str], List[str]]]) -> Tuple[str, Any]:
    """('error', why) or ('ok', (names, deps))"""
    first: Dict[str, List[str]] = {}
    deps: Dict[str, set] = {}
    for name, script, dep in blocks:
        if name in first:
            if first[name] != script:
                return ("error", "same name, different script")
        else:
            first[name] = script
            deps[name] = set()
        deps[name] |= set(dep)
    for n, ds in deps.items():
        for d in ds:
            if d not in deps:
                return ("error", "dependency not sent")
    # Kahn
    indeg = {n: len(ds) for n, ds in deps.items()}
    ready = [n for n, k in indeg.items() if k == 0]
    done = 0
    users: Dict[str, List[str]] = {n: [] for n in deps}
    for n, ds in deps.items():
        for d in ds:
            users[d].append(n)
    while ready:
        n = ready.pop()
        done += 1
        for u in users[n]:
            indeg[u] -= 1
            if indeg[u] == 0:
                ready.append(u)
    if done != len(deps):
        return ("error", "cycle")
    return ("ok", (first, deps))


def check_output(out: List[str], first: Dict[str, List[str]], deps: Dict[str, set]) -> Optional[str]:
    """None if `out` is a concatenation of whole blocks, each exactly once, dependencies first."""
    total = sum(len(s) for s in first.values())
    if len(out) != total:
        return f"output has {len(out)} lines, the distinct blocks have {total}"
    nonempty = {n: s for n, s in first.items() if s}
    unique_lines = len({l for s in nonempty.values() for l in s}) == sum(len(s) for s in nonempty.values())
    if not unique_lines:
        # blocks share lines: only the multiset and the per-block subsequence conditions are decidable
        if sorted(out) != sorted(l for s in first.values() for l in s):
            return "multiset of lines differs"
        for n, s in nonempty.items():
            it = iter(out)
            if not all(any(x == l for x in it) for l in s):
                return f"lines of block {n} are not a subsequence of the output"
        return None
    pos = 0
    order: List[str] = []
    start_of = {s[0]: n for n, s in nonempty.items()}
    while pos < len(out):
        n = start_of.get(out[pos])
        if n is None or n in order:
            return f"line {pos} ({out[pos]!r}) does not start a not-yet-emitted block"
        s = first[n]
        if out[pos:pos + len(s)] != s:
            return f"block {n} is not contiguous / in order at line {pos}"
        order.append(n)
        pos += len(s)
    if set(order) != set(nonempty):
        return f"blocks dropped: {sorted(set(nonempty) - set(order))}"
    where = {n: i for i, n in enumerate(order)}
    for n, ds in deps.items():
        for d in ds:
            if n in where and d in where and where[d] > where[n]:
                return f"block {n} is emitted before its dependency {d}"
    return None


# ---------------------------------------------------------------- worker (forked child of the /venv interpreter)
def _install_contract(state):
    ensure_deps()
    import icontract
    import func_adl_xAOD.common.meta_data as md
    import func_adl_xAOD.atlas.xaod.executor as ax

    class PostBroken(Exception):
        pass

    def topo_contract(blocks, result):
        state["contract_evals"] += 1
        exp = expected_outcome([(b.name, list(b.script), list(b.depends_on)) for b in blocks])
        if exp[0] == "error":
            state["contract_fail"] = f"returned {result!r:.200} where ValueError was required ({exp[1]})"
            return True  # recorded; the harness reports it with the input
        why = check_output(list(result), *exp[1])
        if why:
            state["contract_fail"] = why
        return True
    real = md.generate_script_block
    wrapped = icontract.ensure(topo_contract, error=PostBroken)(real)
    md.generate_script_block = wrapped
    ax.generate_script_block = wrapped  # alias bound by `from ... import` before we decorated
    return wrapped


def call_one(fn, blocks, state) -> Optional[str]:
    from func_adl_xAOD.common.meta_data import JobScriptSpecification

    specs = [JobScriptSpecification(n, list(s), list(d)) for n, s, d in blocks]
    exp = expected_outcome(blocks)
    state["contract_fail"] = None
    before = state["contract_evals"]
    try:
        fn(specs)
        raised = None
    except ValueError as e:
        raised = "ValueError"
    except Exception as e:  # wrong exception type
        raised = type(e).__name__
    if raised is None and state["contract_evals"] == before:
        return "INCONCLUSIVE: contract was not evaluated"
    if exp[0] == "error":
        if raised == "ValueError":
            return None
        return f"expected ValueError ({exp[1]}) but " + (f"{raised} was raised" if raised else "a script was returned")
    if raised:
        return f"valid input refused with {raised}"
    return state["contract_fail"]


def script_for(name: str, variant: int = 0, n: int = 2) -> List[str]:
    # python source: bodies of if/for blocks are indented, continuation lines aligned - the text must arrive unaltered
    return [("    " if i % 2 else "") + ("\t" if i % 5 == 3 else "") + f"{name}_v{variant}_line{i}" + ("  # c" if i % 4 == 2 else "") for i in range(n)]


def worker(args: Dict[str, Any]) -> Dict[str, Any]:
    state = {"contract_evals": 0, "contract_fail": None}
    fn = _install_contract(state)
    out: Dict[str, Any] = {"n": 0, "violations": [], "classes": {}, "samples": []}

    def run(blocks):
        out["n"] += 1
        why = call_one(fn, blocks, state)
        exp = expected_outcome(blocks)
        cls = (len(blocks), len({b[0] for b in blocks}), exp[0], exp[1] if exp[0] == "error" else sum(len(d) for d in exp[1][1].values()))
        out["classes"][repr(cls)] = out["classes"].get(repr(cls), 0) + 1
        if why and len(out["violations"]) < 5:
            out["violations"].append({"blocks": blocks, "why": why})
        if len(out["samples"]) < 2 and len(blocks) >= 2:
            out["samples"].append({"blocks": blocks, "expected": exp[0]})

    if args["mode"] == "exhaustive":
        names = args["names"]
        per_block = [(n, script_for(n, v), list(d)) for n in names for v in (0, 1)
                     for k in range(len(names) + 1) for d in itertools.combinations(names, k)]
        firsts = per_block[args["shard"]::args["nshards"]]
        for L in range(1, args["maxlen"] + 1):
            for f in firsts:
                for rest in itertools.product(per_block, repeat=L - 1):
                    run([f, *rest])
    else:
        R = random.Random(args["seed"])
        for _ in range(args["count"]):
            run(random_blocks(R))
    out["contract_evals"] = state["contract_evals"]
    return out


# Block names are arbitrary strings and are compared for EQUALITY only.  Hostile pools: names that are shell-glob / regular
# expression patterns matching one another, prefixes of one another, differing in case or white space only, with
# separators; a name is never a pattern for another name.
HOSTILE_NAMES = ["GRL[1]", "GRL1", "GRL*", "GRL", "prw*", "prw_tool", "a?", "ab", "a.", "jets[AntiKt4EMTopo]", "jets", "Jets", "jets ", " jets", "x.y", "x|y", "x", "(x)", "x+", "^x$", "x\\d",
                 "b{1,2}", "b1", "b2", "tool:cfg", "tool/cfg", "tool cfg", "é", "[!a]", "[a-z]", "%s", "{name}", "{{ x }}", "#x", "'q'", '"q"']


def random_blocks(R: random.Random) -> List[Tuple[str, List[str], List[str]]]:
    nn = R.choice([2, 3, 5, 8, 12])
    names = [f"b{i}" for i in range(nn)] if R.random() < 0.6 else R.sample(HOSTILE_NAMES, nn)
    R.shuffle(names)
    mode = R.choice(["dag", "dag", "dag", "cycle", "missing", "conflict", "self", "shared"])
    order = list(names)
    R.shuffle(order)
    rank = {n: i for i, n in enumerate(order)}
    blocks = []
    nblocks = R.randint(nn, min(30, nn * 3))
    seq = list(names) + [R.choice(names) for _ in range(nblocks - nn)]
    R.shuffle(seq)
    for n in seq:
        lower = [m for m in names if rank[m] < rank[n]]
        dep = R.sample(lower, R.randint(0, min(3, len(lower)))) if lower else []
        ln = R.choice([0, 1, 2, 4])
        script = script_for(n, 0, ln) if mode != "shared" else [f"shared_line{i}" for i in range(ln)] + [f"{n}_tail"]
        blocks.append((n, script, dep))
    if mode == "cycle" and nn >= 2:
        a, b = order[0], order[-1]
        blocks.append((a, blocks[[x[0] for x in blocks].index(a)][1], [b]))
        # make sure b depends (transitively) on a
        blocks.append((b, blocks[[x[0] for x in blocks].index(b)][1], [a]))
        R.shuffle(blocks)
    elif mode == "missing":
        i = R.randrange(len(blocks))
        blocks[i] = (blocks[i][0], blocks[i][1], blocks[i][2] + ["not_sent"])
    elif mode == "conflict":
        i = R.randrange(len(blocks))
        blocks.insert(R.randrange(len(blocks) + 1), (blocks[i][0], blocks[i][1] + ["extra"], []))
    elif mode == "self":
        i = R.randrange(len(blocks))
        blocks[i] = (blocks[i][0], blocks[i][1], blocks[i][2] + [blocks[i][0]])
    return blocks


# ---------------------------------------------------------------- executor path
def build_query(blocks, placement, omit_empty_deps: bool = False) -> str:
    """blocks as add_job_script metadata.  placement None: all on the dataset; else one of 'ds', 'after_where', 'inner_collection',
    'discarded_element' per block (metadata may ride on any sub-expression of the query, also on one that tuple resolution removes)."""
    placement = placement or ["ds"] * len(blocks)

    def wrap(expr, where):
        for (n, s, d), p in zip(blocks, placement):
            if p == where:
                # the depends_on key may be left out when a block depends on nothing (every other such block does so)
                dep = "" if (not d and (omit_empty_deps or sum(map(ord, n)) % 2 == 0)) else f", 'depends_on': {d!r}"
                expr = f"MetaData({expr}, {{'metadata_type': 'add_job_script', 'name': {n!r}, 'script': {s!r}{dep}}})"
        return expr
    q = wrap("ds", "ds")
    if "after_where" in placement:
        q = wrap(f"Where({q}, lambda e: e.EventInfo('EventInfo').runNumber() > 0)", "after_where")
    ev = "e"
    if "discarded_element" in placement:
        carrier = wrap("e0.Jets('Carrier')", "discarded_element")
        q = f"Select({q}, lambda e0: ({carrier}, e0))"
        ev = "t"
    jets = wrap(ev_expr(ev) + ".Jets('J')", "inner_collection")
    body = f"({jets}.Count(), {ev_expr(ev)}.EventInfo('EventInfo').runNumber())"
    return f"Select({q}, lambda {ev}: {body})"


def ev_expr(ev: str) -> str:
    return "t[1]" if ev == "t" else "e"


def executor_worker(args: Dict[str, Any]) -> Dict[str, Any]:
    "blocks -> add_job_script metadata -> real executor -> rendered ATestRun_eljob.py region"
    from ..xlate import translate_job

    blocks = args["blocks"]
    q = build_query(blocks, args.get("placement"), args.get("omit_empty_deps", False))
    pre = [build_query(b, None, args.get("omit_empty_deps", False)) for b in args.get("pre_blocks", [])]
    res = translate_job({"backend": "atlas", "query": q, "out": args["out"], "pre_queries": pre})
    exp = expected_outcome(blocks)
    if res["status"] != "ok":
        ok = exp[0] == "error" and res["exc"]["type"] == "ValueError"
        return {"why": None if ok else f"translation raised {res['exc']['type']}: {res['exc']['msg'][:200]} (expected {exp[0]})"}
    if exp[0] == "error":
        return {"why": f"package returned where ValueError was required ({exp[1]})"}
    txt = (Path(args["out"]) / "ATestRun_eljob.py").read_text()
    a = txt.index("job.sampleHandler(sh)") + len("job.sampleHandler(sh)")
    b = txt.index("# Create the algorithm's configuration.")
    raw = txt[a:b]
    toks = raw[2:-2].split("\n") if raw.startswith("\n\n") and raw.endswith("\n\n") else None
    if toks is not None and len(toks) % 2 == 1 and all(t == "" for t in toks[0::2]):
        region = toks[1::2]     # the template writes "\n<line>\n" per script line: blank script lines are recoverable
    elif toks is not None and raw.strip("\n") == "":
        region = []
    else:
        region = [l for l in raw.split("\n") if l.strip() != ""]
        exp = (exp[0], ({n: [l for l in sc if l.strip() != ""] for n, sc in exp[1][0].items()}, exp[1][1]))
    return {"why": check_output(region, *exp[1]), "region_lines": len(region)}


def run(ctx: Ctx) -> int:
    reqs = []
    nsh = 48
    for sh in range(nsh):
        reqs.append({"fn": "vf.props.c15:worker", "args": {"mode": "exhaustive", "names": ["a", "b", "c"], "maxlen": 3, "shard": sh, "nshards": nsh}})
    for sh in range(16):
        reqs.append({"fn": "vf.props.c15:worker", "args": {"mode": "exhaustive", "names": ["a", "b"], "maxlen": 4, "shard": sh, "nshards": 16}})
    # the same bound over names that are patterns for one another (quick: length <= 2 of the triple, thorough: <= 3)
    for sh in range(16):
        reqs.append({"fn": "vf.props.c15:worker", "args": {"mode": "exhaustive", "names": ["GRL[1]", "GRL1", "GRL*"], "maxlen": ctx.pick(2, 3), "shard": sh, "nshards": 16}})
        reqs.append({"fn": "vf.props.c15:worker", "args": {"mode": "exhaustive", "names": ["a?", "ab"], "maxlen": ctx.pick(3, 4), "shard": sh, "nshards": 16}})
    nrand = ctx.pick(16, 64)
    for i in range(nrand):
        reqs.append({"fn": "vf.props.c15:worker", "args": {"mode": "random", "seed": f"{ctx.seed}:c15:{i}", "count": ctx.pick(1500, 8000)}})
    if ctx.replay:
        rep = json.loads(Path(ctx.replay).read_text())["case"]
        reqs = [{"fn": "vf.props.c15:replay_worker", "args": rep}]
    res = run_batch(reqs, ctx.scratch, timeout=600)
    classes: Dict[str, int] = {}
    for r in res:
        if r.get("status") in ("timeout", "harness_error"):
            ctx.inconclusive.append(f"worker failed: {r}"[:300])
            continue
        ctx.count("evaluations", r["n"])
        ctx.count("contract_evaluations", r["contract_evals"])
        for k, v in r["classes"].items():
            classes[k] = classes.get(k, 0) + v
        for s in r["samples"][:1]:
            ctx.sample(s)
        for v in r["violations"]:
            if v["why"].startswith("INCONCLUSIVE"):
                ctx.inconclusive.append(v["why"])
            else:
                ctx.violation({"blocks": v["blocks"], "path": "generate_script_block"}, v["why"] + f" :: blocks={v['blocks']!r:.400}")
    for k in classes:
        if not k.startswith("(1,"):
            ctx.seen(k)
    # executor path (metadata -> template)
    R = ctx.rng("exe")
    ereqs = []
    for i in range(ctx.pick(40, 300)):
        bl = random_blocks(R)[: R.choice([2, 4, 8])]
        ereqs.append({"fn": "vf.props.c15:executor_worker", "args": {"blocks": bl, "out": str(ctx.scratch / f"exe{i}")}})
    # blocks riding on different parts of the query, and a second query on an executor that has just handled (or refused) another block set
    for i in range(ctx.pick(40, 300)):
        bl = random_blocks(R)[: R.choice([2, 3, 5])]
        pl = [R.choice(["ds", "after_where", "inner_collection", "discarded_element"]) for _ in bl]
        ereqs.append({"fn": "vf.props.c15:executor_worker", "args": {"blocks": bl, "placement": pl, "out": str(ctx.scratch / f"exep{i}")}})
    for i in range(ctx.pick(30, 200)):
        bl = random_blocks(R)[: R.choice([1, 2, 4])]
        pre = [random_blocks(R)[: R.choice([1, 3, 6])] for _ in range(R.choice([1, 1, 2]))]
        ereqs.append({"fn": "vf.props.c15:executor_worker", "args": {"blocks": bl, "pre_blocks": pre, "out": str(ctx.scratch / f"exes{i}")}})
        ctx.count("same_executor_sequences")
        ctx.count("earlier_block_sets_refused", sum(1 for p in pre if expected_outcome(p)[0] == "error"))
    # a block sent twice with the same script, the copy that is processed first (the outermost one) naming no dependencies,
    # next to other blocks that name none either; then further queries in the same process
    for i in range(ctx.pick(6, 40)):
        names = R.sample([f"b{k}" for k in range(9)] if i % 2 else HOSTILE_NAMES, 4)
        x, y, z, solo = names
        first = [(x, script_for(x, 0, 2), [y]), (y, script_for(y, 0, 1), []), (z, script_for(z, 0, 3), []), (x, script_for(x, 0, 2), [])]
        ereqs.append({"fn": "vf.props.c15:executor_worker", "args": {"blocks": first, "omit_empty_deps": True, "out": str(ctx.scratch / f"exed{i}")}})
        ereqs.append({"fn": "vf.props.c15:executor_worker", "args": {"blocks": [(solo, script_for(solo, 0, 2), []), (z, script_for(z, 0, 3), [])], "pre_blocks": [first], "omit_empty_deps": True,
                                                                     "out": str(ctx.scratch / f"exee{i}")}})
    # blank lines are lines too (the empty line inside a triple-quoted script)
    for i in range(ctx.pick(4, 20)):
        x, y, z = R.sample([f"b{k}" for k in range(9)], 3)
        bl = [(x, [f"{x}_0", "", f"    {x}_2", ""], []), (y, ["", f"{y}_1"], [x]), (z, [f"{z}_0", "", "", f"{z}_3"], R.choice([[], [y]]))]
        if i % 3 == 2:
            bl.append((x, [f"{x}_0", f"    {x}_2"], []))     # differs from the first copy by its blank lines only: a different script
        R.shuffle(bl)
        ereqs.append({"fn": "vf.props.c15:executor_worker", "args": {"blocks": bl, "out": str(ctx.scratch / f"exeb{i}")}})
    # a name sent twice with DIFFERENT scripts and identical dependency sets
    for i in range(ctx.pick(4, 20)):
        x, y = R.sample([f"b{k}" for k in range(9)], 2)
        deps = R.choice([[], [y]])
        bl = [(y, script_for(y, 0, 2), []), (x, script_for(x, 0, 2), list(deps)), (x, script_for(x, 1, 2), list(deps))]
        R.shuffle(bl)
        ereqs.append({"fn": "vf.props.c15:executor_worker", "args": {"blocks": bl, "out": str(ctx.scratch / f"exec{i}")}})
    for r, q in zip(run_batch(ereqs, ctx.scratch), ereqs):
        if "why" not in r:
            ctx.inconclusive.append(f"executor worker failed: {r}"[:300])
            continue
        ctx.count("executor_renderings")
        ctx.count("evaluations")
        if r["why"]:
            ctx.violation({"blocks": q["args"]["blocks"], "path": "executor", "placement": q["args"].get("placement"), "pre_blocks": q["args"].get("pre_blocks")},
                          "rendered job options: " + r["why"] + f" :: blocks={q['args']['blocks']!r:.300} placement={q['args'].get('placement')} earlier block sets on the same executor={q['args'].get('pre_blocks')!r:.200}")
    if ctx.counters["contract_evaluations"] == 0:
        ctx.inconclusive.append("the contract on generate_script_block was never evaluated")
    ctx.extra["outcome_classes"] = len(classes)
    return ctx.finish("exploration", RULE, ASSUME, exhaustive=False)


def replay_worker(args):
    state = {"contract_evals": 0, "contract_fail": None}
    fn = _install_contract(state)
    blocks = [tuple(b) for b in args["blocks"]]
    why = call_one(fn, [(b[0], list(b[1]), list(b[2])) for b in blocks], state)
    return {"n": 1, "contract_evals": state["contract_evals"], "classes": {"replay": 1, "replay2": 1}, "samples": [],
            "violations": [{"blocks": blocks, "why": why}] if why else []}
