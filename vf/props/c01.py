"""C01 - the generated job computes exactly the rows and values the query denotes.

Differential execution: random in-fragment queries x 3 backends x hostile events; the oracle is
row-by-row equality of the FILL records with the Python evaluation of the same AST; a refusal
or a package that does not build for an in-fragment query is a violation too."""
from __future__ import annotations

from .. import diff, schema as sch
from ..core import Ctx
from . import common

RULE = ("typed random queries over the documented fragment (qgen), each translated by the real translator, compiled unmodified "
        "with ASan+UBSan against the model EDM and run on 8 hostile events; compared per decided event with eval() of the same AST. "
        "distinct = distinct (backend, operator multiset) signatures of HELD cases; non-trivial = at least 2 operators")
ASSUME = ["model EDM stands for AnalysisBase/CMSSW/ROOT (built from the repository's own declarations)",
          "Python's evaluation of the query AST on the LINQ runtime in vf/refrt.py is the meaning of the query",
          "events where lazy/eager/skip evaluation orders disagree or that are numerically ill-conditioned are UNSPEC and not compared"]


def tolerated(case, r) -> bool:
    # a bare collection-valued METHOD RESULT used directly as a column (no Select on it): not in the documented list, refused loudly
    e = r["translate"].get("exc", {})
    return e.get("where", "").endswith("code_fill_ttree") and "Do not know how to loop over" in e.get("msg", "")


def operator_context_cases(ctx: Ctx, backend: str, opts, fraction: int):
    """Every operator of the documented fragment placed in every kind of live context (the position templates of C09:
    event/object columns, Where at three levels, inner Select, Aggregate body, under Sum/First, behind Select/tuple/dict
    chains, conditional test and arm, right operand of `and`, arithmetic operand, math argument, Range bound)."""
    from .. import evgen, qgen
    from .c09 import as_kind, positions
    s = sch.fixed(backend)
    C = s["main"]["coll"]

    def seq(J, E):
        return f"{J}.trkPts()" if J else f"{E}.{C}('A').Select(lambda q: q.pt())"

    def iseq(J, E):
        return f"{J}.hits()" if J else f"{E}.{C}('A').Select(lambda q: q.nTrk())"

    def x(J, E):
        return f"{J}.pt()" if J else f"{E}.{C}('A').Count()"

    def i(J, E):
        return f"{J}.nTrk()" if J else f"{E}.{C}('B').Count()"
    OPS = [("add", "num", lambda J, E: f"({x(J, E)} + {i(J, E)})"), ("sub", "num", lambda J, E: f"({x(J, E)} - 1.5)"), ("mul", "num", lambda J, E: f"({x(J, E)} * {i(J, E)})"),
           ("div", "num", lambda J, E: f"({x(J, E)} / ({i(J, E)} + 1))"), ("pow", "num", lambda J, E: f"({i(J, E)} ** 2)"), ("mod", "num", lambda J, E: f"({i(J, E)} % 3)"),
           ("neg", "num", lambda J, E: f"(-{x(J, E)})"), ("uadd", "num", lambda J, E: f"(+{i(J, E)})"), ("not", "bool", lambda J, E: f"(not ({x(J, E)} > 5))"),
           ("cmp", "bool", lambda J, E: f"({x(J, E)} >= {i(J, E)})"), ("eq", "bool", lambda J, E: f"({i(J, E)} == 2)"), ("and", "bool", lambda J, E: f"({x(J, E)} > 1 and {i(J, E)} < 4)"),
           ("or", "bool", lambda J, E: f"({x(J, E)} > 40 or {i(J, E)} == 0 or {i(J, E)} == 3)"), ("ifexp", "num", lambda J, E: f"({x(J, E)} if {i(J, E)} > 1 else -1.0)"),
           ("math", "num", lambda J, E: f"sqrt(abs({x(J, E)}))"), ("math2", "num", lambda J, E: f"atan2({x(J, E)}, 2.0)"), ("count", "num", lambda J, E: f"{seq(J, E)}.Count()"),
           ("sum", "num", lambda J, E: f"{seq(J, E)}.Sum()"), ("aggregate", "num", lambda J, E: f"{iseq(J, E)}.Aggregate(1, lambda a, v: a + v * 2)"),
           ("where_count", "num", lambda J, E: f"{seq(J, E)}.Where(lambda v: v > 10.0).Count()"), ("first_guarded", "num", lambda J, E: f"({seq(J, E)}.First() if {seq(J, E)}.Count() > 0 else -1.0)"),
           ("index_guarded", "num", lambda J, E: (f"({J}.hits()[1] if {J}.hits().Count() > 1 else -1)" if J else f"({E}.{C}('A')[1].nTrk() if {E}.{C}('A').Count() > 1 else -1)")), ("range_sum", "num", lambda J, E: f"Range(0, {i(J, E)}).Sum()"),
           ("tuple_index", "num", lambda J, E: f"({x(J, E)}, {i(J, E)})[1]"), ("dict_index", "num", lambda J, E: f"{{'p': {x(J, E)}, 'q': {i(J, E)}}}['p']"),
           ("select_sum", "num", lambda J, E: f"{seq(J, E)}.Select(lambda v: v * 2).Sum()"),
           # differences of counts that go negative, compared and divided (a count is a signed int, as in python)
           ("count_diff", "num", lambda J, E: (f"(({J}.hits().Count() - {J}.trkPts().Count() - 2) / 2)" if J else f"(({E}.{C}('A').Count() - {E}.{C}('B').Count() - 2) / 2)")),
           ("count_diff_cmp", "bool", lambda J, E: (f"({J}.hits().Count() - 3 > -1)" if J else f"({E}.{C}('A').Count() - {E}.{C}('B').Count() > -1)")),
           # rounding functions of values far outside the int range (MeV-scale quantities squared): the value is what Python's float gives
           ("round_large", "num", lambda J, E: f"(floor({x(J, E)} * 100000000.0) + round({x(J, E)} * 300000000.0) - trunc({x(J, E)} * 1000.0) * ceil({x(J, E)} * 1000000.0))")]
    out = []
    k = 0
    for oname, okind, ofn in OPS:
        for pname, pkind, pfn in positions(backend, s):
            if pname == "range_bound" and oname not in ("count", "mod", "aggregate", "add", "uadd", "tuple_index"):
                continue
            k += 1
            first_position = pname == positions(backend, s)[0][0]
            if (k + ctx.seed) % fraction != 0 and not first_position:   # every operator at least once, in the plainest position
                continue
            R = ctx.rng("opctx", backend, oname, pname)
            g = qgen.QGen(s, R, **opts)

            def gr(env, J, E, ofn=ofn, okind=okind, pkind=pkind, pname=pname):
                e = ofn(J, E)
                if pname == "range_bound":
                    e = f"{i(J, E)}" if okind != "num" else e.replace(".pt()", ".nTrk()").replace("1.5", "1")
                return as_kind(e, okind, "num" if pkind == "col" else pkind)
            try:
                q = pfn(gr, g)
            except qgen.CannotGenerate:
                continue
            evs = evgen.gen_events(s, ctx.rng("opctx_ev", backend, k % 5), 6)
            out.append(diff.Case(backend, q, evs, diff.members_used(s, q), tag={"features": {"op_" + oname: 1, "ctx_" + pname: 1, "pair": 1}, "query": q}))
    return out


def run(ctx: Ctx) -> int:
    eng = diff.Engine(ctx)
    if ctx.replay:
        return common.replay_differential(ctx, eng, ctx.replay)
    common.run_witnesses(ctx, eng)
    opts = common.gen_options(ctx)
    ctx.extra["generator_exclusions_from_known_findings"] = opts
    n = ctx.pick(70, 900)
    depths = ctx.pick([1, 2, 3], [1, 2, 3, 4])
    judge = common.Judge(ctx, eng, tolerated_refusal=tolerated, max_shrinks=ctx.pick(3, 8))
    for backend in sch.BACKENDS:
        chunk = 300
        done = 0
        while done < n:
            cases = common.make_cases(ctx, backend, min(chunk, n - done), depths, opts, stream=f"c01:{done}")
            diff.differential(ctx, eng, cases, judge.on_result)
            done += len(cases)
            if not cases:
                break
    # operator x context pair sweep
    for backend in sch.BACKENDS:
        frac = ctx.pick(9 if backend == "atlas" else 27, 1)
        cases = operator_context_cases(ctx, backend, opts, frac)
        ctx.count("operator_context_pairs", len(cases))
        diff.differential(ctx, eng, cases, judge.on_result)
    # the same parameter name bound again and again, nested and side by side, with an outer variable used after an inner lambda
    # that rebinds its name (the shapes in which a careless rewrite captures a variable)
    from .. import evgen
    for backend in sch.BACKENDS:
        s = sch.fixed(backend)
        C = s["main"]["coll"]
        A, B = f"e.{C}('A')", f"e.{C}('B')"
        T = [f"ds.Select(lambda e: {A}.Where(lambda x: x.pt() > 1.0).Select(lambda x: {B}.SelectMany(lambda x: x.trkPts()).Where(lambda v: v > x.pt()).Count()))",
             f"ds.Select(lambda e: {A}.Where(lambda x: x.pt() > 1.0).Select(lambda x: {B}.Select(lambda x: x.pt()).Where(lambda v: v > x.eta()).Count()))",
             f"ds.Select(lambda e: {A}.Select(lambda x: x.pt()).Where(lambda x: x > 5.0).Select(lambda x: {B}.Select(lambda x: x.eta()).Where(lambda y: y < x).Count()))",
             f"ds.Select(lambda e: {A}.Where(lambda x: x.pt() > 0.0).Where(lambda x: x.eta() > 0.0).Select(lambda x: x.tracks().SelectMany(lambda x: x.d0s()).Where(lambda x2: x2 > x.pt()).Select(lambda d: d + x.eta())))",
             f"ds.Select(lambda e: ({A}.Select(lambda x: x.pt()), {A}.Select(lambda x: {B}.Where(lambda x: x.pt() > 10.0).Select(lambda y: x.pt() - y.pt())), {B}.Select(lambda x: x.eta())))",
             f"ds.SelectMany(lambda e: {A}).Where(lambda e: e.pt() > 2.0).Select(lambda e: e.tracks().Select(lambda e: e.pt()).Where(lambda t: t > e.eta()).Sum())"]
        cases = [diff.Case(backend, t, evgen.gen_events(s, ctx.rng("samename", backend, i), 6), diff.members_used(s, t), tag={"features": {"same_parameter_name_nesting": 2, f"t{i}": 1}, "query": t}) for i, t in enumerate(T)]
        ctx.count("same_name_nesting_cases", len(cases))
        diff.differential(ctx, eng, cases, judge.on_result)
    # aggregate forms: every kind of seed (literal, negative, constant expression, member, another aggregate bare and inside an
    # expression) x every kind of sequence (plain, filtered, flattened by an inner SelectMany, a sequence of sequences), per event
    # and per object - the region that generator exclusions kept dark until the findings behind them were repaired
    for backend in sch.BACKENDS:
        s = sch.fixed(backend)
        C = s["main"]["coll"]
        A, B = f"e.{C}('A')", f"e.{C}('B')"
        seeds = ["0", "-1", "(1 + 1)", "0.5", f"{B}.Count()", f"{B}.Count() * 100", f"({B}.Select(lambda k: k.pt()).Sum() / 2)", f"({B}.Count() - 1)"]
        seqs = [f"{A}.Select(lambda j: j.pt())", f"{A}.Where(lambda j: j.pt() > 20.0).Select(lambda j: j.eta())", f"{A}.SelectMany(lambda j: j.trkPts())",
                f"{A}.SelectMany(lambda j: j.tracks()).Select(lambda t: t.pt())"]
        T = []
        for i, sd in enumerate(seeds):
            sq = seqs[(i + ctx.seed) % len(seqs)] if ctx.quick else None
            for q in ([sq] if sq else seqs):
                T.append(f"ds.Select(lambda e: {q}.Aggregate({sd}, lambda a, x: a + x))")
        oseeds = ["j.pt()", "j.hits().Count()", "(j.hits().Count() * 10 + 1)", "-2", "(j.nTrk() - j.hits().Count())", "j.trkPts().Sum()"]
        for i, sd in enumerate(oseeds):
            T.append(f"ds.Select(lambda e: {A}.Select(lambda j: j.trkPts().Aggregate({sd}, lambda a, x: a + x * 2)))")
            T.append(f"ds.SelectMany(lambda e: {A}).Select(lambda j: (j.tracks().SelectMany(lambda t: t.d0s()).Aggregate({sd}, lambda a, x: a - x), j.pt()))")
        T += [f"ds.Select(lambda e: {A}.Select(lambda j: j.trkPts().Select(lambda t: t * 2)).Count())", f"ds.Select(lambda e: {A}.Select(lambda j: j.tracks().Where(lambda t: t.pt() > 10.0)).Count() + {B}.Count())",
              f"ds.Select(lambda e: {A}.Select(lambda j: j.tracks().Select(lambda t: t.d0s().Select(lambda d: d + 1)).Count()))",
              # ... whose inner sequences are themselves flattened / filtered (several nested loops per inner sequence)
              f"ds.Select(lambda e: {A}.Select(lambda j: {B}.SelectMany(lambda k: k.trkPts())).Count())",
              f"ds.Select(lambda e: {A}.Select(lambda j: j.tracks().SelectMany(lambda t: t.d0s())).Count())",
              f"ds.Select(lambda e: {A}.Where(lambda j: j.pt() > 20.0).Select(lambda j: j.tracks().Where(lambda t: t.pt() > 5.0).SelectMany(lambda t: t.d0s())).Count())",
              f"ds.Select(lambda e: ({A}.SelectMany(lambda j: j.trkPts()).Count(), {A}.SelectMany(lambda j: j.trkPts()).Sum(), {A}.Count()))",
              f"ds.Where(lambda e: {A}.SelectMany(lambda j: j.tracks()).Count() > 0).Select(lambda e: {A}.SelectMany(lambda j: j.tracks()).First().pt())",
              f"ds.SelectMany(lambda e: {A}).Select(lambda j: j.tracks().Select(lambda t: Range(0, 3)))",
              f"ds.SelectMany(lambda e: {A}).Where(lambda j: j.pt() > 10.0).Select(lambda j: j.tracks().Where(lambda t: t.pt() > 5.0).Select(lambda t: t.d0s()))",
              f"ds.SelectMany(lambda e: {A}).Select(lambda j: j.trkPts().Where(lambda p: p > j.pt()))"]
        cases = [diff.Case(backend, t, evgen.gen_events(s, ctx.rng("aggforms", backend, i), 6), diff.members_used(s, t), tag={"features": {"aggregate_forms": 2, f"t{i}": 1}, "query": t}) for i, t in enumerate(T)]
        ctx.count("aggregate_form_cases", len(cases))
        diff.differential(ctx, eng, cases, judge.on_result)
    judge.settle()
    decided = ctx.counters["events_decided"]
    if decided < (ctx.counters["events_unspec"] + decided) * 0.5:
        ctx.inconclusive.append("fewer than half of the events were decided")
    return ctx.finish("exploration", RULE, ASSUME, evaluations_key="evaluations")
