"""C01 - the generated job computes exactly the rows and values the query denotes.

Differential execution: random in-fragment queries x 3 backends x hostile events; the oracle is
row-by-row equality of the FILL records with the Python evaluation of the same AST; a refusal
or a package that does not build for an in-fragment query is a violation too."""
from __future__ import annotations

from .. import diff, schema as sch
from ..core import Ctx
from . import common

RULE = ("typed random queries over the documented fragment (qgen), each translated by the real translator, compiled unmodified "
        "with ASan+UBSan against the model EDM and run on 8 hostile events; compared per decided event with eval() of the same AST. "
        "distinct = distinct (backend, operator multiset) signatures of HELD cases; non-trivial = at least 2 operators")
ASSUME = ["model EDM stands for AnalysisBase/CMSSW/ROOT (built from the repository's own declarations)",
          "Python's evaluation of the query AST on the LINQ runtime in vf/refrt.py is the meaning of the query",
          "events where lazy/eager/skip evaluation orders disagree or that are numerically ill-conditioned are UNSPEC and not compared"]


def tolerated(case, r) -> bool:
    # a bare collection-valued METHOD RESULT used directly as a column (no Select on it): not in the documented list, refused loudly
    e = r["translate"].get("exc", {})
    return e.get("where", "").endswith("code_fill_ttree") and "Do not know how to loop over" in e.get("msg", "")


def run(ctx: Ctx) -> int:
    eng = diff.Engine(ctx)
    if ctx.replay:
        return common.replay_differential(ctx, eng, ctx.replay)
    common.run_witnesses(ctx, eng)
    opts = common.gen_options(ctx)
    ctx.extra["generator_exclusions_from_known_findings"] = opts
    n = ctx.pick(70, 900)
    depths = ctx.pick([1, 2, 3], [1, 2, 3, 4])
    judge = common.Judge(ctx, eng, tolerated_refusal=tolerated, max_shrinks=ctx.pick(3, 8))
    for backend in sch.BACKENDS:
        chunk = 300
        done = 0
        while done < n:
            cases = common.make_cases(ctx, backend, min(chunk, n - done), depths, opts, stream=f"c01:{done}")
            diff.differential(ctx, eng, cases, judge.on_result)
            done += len(cases)
            if not cases:
                break
    judge.settle()
    decided = ctx.counters["events_decided"]
    if decided < (ctx.counters["events_unspec"] + decided) * 0.5:
        ctx.inconclusive.append("fewer than half of the events were decided")
    return ctx.finish("exploration", RULE, ASSUME, evaluations_key="evaluations")
