"""Shared workload runner for the properties decided by differential execution."""
from __future__ import annotations

import json
import random
from pathlib import Path
from typing import Any, Callable, Dict, List, Optional, Tuple

from .. import diff, evgen, findings, qgen, schema as sch, shrink
from ..core import Ctx


def gen_options(ctx: Ctx, **over) -> Dict[str, Any]:
    o = findings.generator_exclusions(ctx.all_known())
    o.update(over)
    return o


def make_cases(ctx: Ctx, backend: str, n: int, depths: List[int], opts: Dict[str, Any], nevents: int = 8,
               stream: str = "main", accept: Optional[Callable[[Dict[str, Any]], bool]] = None) -> List[diff.Case]:
    s = sch.fixed(backend)
    cases = []
    i = 0
    tries = 0
    while len(cases) < n and tries < n * 20:
        tries += 1
        R = ctx.rng(stream, backend, tries)
        g = qgen.QGen(s, R, **opts)
        try:
            q = g.query(R.choice(depths))
        except qgen.CannotGenerate:
            continue
        if accept is not None and not accept(q):
            ctx.count("generator_rejected")
            continue
        evs = evgen.gen_events(s, ctx.rng(stream, "ev", backend, tries), nevents)
        text = q["query"]
        if opts.get("reuse_parameter_names", True) and R.random() < 0.25:
            # the generator gives every lambda its own parameter name; people write `lambda j:` everywhere.  Rename as many
            # parameters as the scoping rules allow to the same few names (same meaning, see vf/variants.py)
            import ast as _ast
            from .. import variants as V
            try:
                t, nren = V.alpha_rename(V.parse(text), R, R.choice([["x"], ["j", "e"], ["j", "t", "e"]]))
                if nren:
                    text = _ast.unparse(t)
                    q = dict(q, query=text)
                    ctx.count("queries_with_reused_parameter_names")
            except Exception:
                pass
        cases.append(diff.Case(backend, text, evs, diff.members_used(s, text), tag=q))
    return cases


class Judge:
    """Turns differential results into held / known-hit / violation, with shrinking."""

    def __init__(self, ctx: Ctx, eng: diff.Engine, families: Optional[List[str]] = None, shrink_budget: float = 45.0, max_shrinks: int = 4,
                 tolerated_refusal: Optional[Callable[[diff.Case, Dict[str, Any]], bool]] = None):
        self.ctx, self.eng = ctx, eng
        self.families = families  # failure-kind prefixes this property cares about (None = all)
        self.shrink_budget = shrink_budget
        self.max_shrinks = max_shrinks
        self.pending: List[Tuple[diff.Case, Dict[str, Any], str]] = []
        self.tolerated_refusal = tolerated_refusal
        self.n_shrunk = 0

    def on_result(self, case: diff.Case, r: Dict[str, Any]):
        ctx = self.ctx
        ctx.count("evaluations")
        kind = shrink.failure_kind(r)
        tr = r["translate"]
        if tr["status"] == "ok":
            ctx.count("translations_accepted")
        elif tr["status"] == "raised":
            ctx.count("translations_refused")
        if r.get("build", {}).get("ok"):
            ctx.count("jobs_compiled_and_run")
            v = r["verdict"]
            ctx.count("events_decided", v["decided"])
            ctx.count("events_unspec", v["unspec"])
            ctx.count("rows_compared", v["rows"])
            ctx.count("fault_events_compared", v["faults"])
            run = r["run"]
            ctx.count("fill_records", sum(len(e["rows"]) for e in run["events"].values()))
            ctx.count("retrieve_records", sum(len(e["retrieves"]) for e in run["events"].values()))
            ctx.count("branch_records", sum(len(b["branches"]) for b in run["book"][:1]))
            ctx.count("sanitizer_reports", sum(1 for c in run["crashes"] if c.get("sanitizer")))
        if kind is None:
            ctx.count("held")
            if isinstance(case.tag, dict) and "features" in case.tag:
                ctx.seen(case.backend + "|" + qgen.signature(case.tag["features"]), qgen.nontrivial(case.tag["features"]))
            ctx.sample({"backend": case.backend, "query": case.query[:300], "decided_events": r["verdict"]["decided"], "rows": r["verdict"]["rows"]})
            return
        if kind in ("harness", "timeout"):
            ctx.count("harness_" + kind)
            ctx.notes.append(f"{kind}: {str(r.get('harness') or r.get('verdict', {}).get('harness') or tr.get('exc'))[:200]} :: {case.query[:160]}")
            return
        if kind.startswith("refused") and self.tolerated_refusal and self.tolerated_refusal(case, r):
            ctx.count("tolerated_refusals")
            return
        if self.families is not None and not any(kind.startswith(f) for f in self.families):
            ctx.count("other_property_failures")
            ctx.count("other:" + kind.split("@")[0])
            return
        self.pending.append((case, r, kind))

    def settle(self):
        """Shrink and classify everything pending."""
        ctx = self.ctx
        known = ctx.all_known()
        for case, r, kind in self.pending:
            detail = describe(r)
            # cheap path: the unshrunk query already matches a known mechanism of this failure family
            hit = findings.classify(known, case.query, kind, detail)
            small = case
            if hit is None and self.n_shrunk < self.max_shrinks:
                self.n_shrunk += 1
                base_kind = kind if kind.startswith("refused") else kind.split(":")[0]

                def still(c, rr, base_kind=base_kind):
                    k = shrink.failure_kind(rr)
                    if k is None:
                        return False
                    return k == base_kind if base_kind.startswith("refused") else k.split(":")[0] == base_kind
                small = shrink.shrink(ctx, self.eng, case, still, budget_s=self.shrink_budget)
                hit = findings.classify(known, small.query, kind, detail)
            if hit is not None:
                ctx.known_hits[hit["key"]] += 1
                continue
            rep = case.replay()
            rep["shrunk_query"] = diff.attach_metadata(small.query, small.metadata)
            rep["failure"] = {"kind": kind, "detail": detail}
            ctx.violation(rep, f"[{case.backend}] {kind}: {detail} :: shrunk query: {small.query[:400]}")
        self.pending = []


def describe(r: Dict[str, Any]) -> str:
    tr = r["translate"]
    if tr["status"] != "ok":
        e = tr.get("exc", {})
        return f"translation raised {e.get('type')} at {e.get('where')}:{e.get('line')}: {e.get('msg', '')[:200]}"
    if not r["build"]["ok"]:
        if r["build"]["stage"] == "includes":
            return f"emitted package is not self-contained: {r['build']['errors'][:2]}"
        return f"emitted package does not {r['build']['stage']}: {r['build']['errors'][:2]}"
    m = r["verdict"]["mismatch"]
    return f"event {m['event']}: {m['why']}" if m else "?"


def run_witnesses(ctx: Ctx, eng: diff.Engine, prop: Optional[str] = None, nevents: int = 8):
    """Re-run the committed witnesses.  known entries of this property that still fail ->
    KNOWN-FINDING line; fixed entries (any property, with a runnable witness) must hold."""
    cases, metas = [], []
    for f in ctx._findings:
        w = f.get("witness") or {}
        if "query" not in w or "backend" not in w or w.get("kind", "differential") != "differential":
            continue
        if f["status"] == "known" and f["property"] != (prop or ctx.prop):
            continue
        s = sch.fixed(w["backend"])
        evs = evgen.gen_events(s, random.Random("witness:" + f["key"]), nevents)
        cases.append(diff.Case(w["backend"], w["query"], evs, diff.members_used(s, w["query"]) + w.get("metadata", []), note="witness " + f["key"]))
        metas.append(f)
    if not cases:
        return
    results = []
    diff.differential(ctx, eng, cases, lambda c, r: results.append((c, r)))
    for (c, r), f in zip(results, metas):
        kind = shrink.failure_kind(r)
        ctx.count("witnesses_rerun")
        if f["status"] == "known":
            if kind is not None and kind not in ("harness", "timeout"):
                ctx.known_finding(f["key"], f"{f['mechanism'][:160]} [witness: {c.backend} {c.query[:120]} -> {describe(r)[:160]}]")
            else:
                ctx.notes.append(f"known finding {f['key']}: committed witness no longer fails ({kind})")
        else:  # fixed: ordinary regression case
            if (f.get("witness") or {}).get("expect") == "refused":
                if kind is not None and kind.startswith("refused"):
                    ctx.count("fixed_witnesses_held")
                elif kind not in ("harness", "timeout"):
                    ctx.violation(c.replay(), f"regression of fixed finding {f['key']}: the query must be rejected but {kind or 'a package was produced and ran'}")
                continue
            if kind is not None and kind not in ("harness", "timeout"):
                rep = c.replay()
                rep["failure"] = {"kind": kind, "detail": describe(r)}
                ctx.violation(rep, f"regression of fixed finding {f['key']}: {describe(r)}")
            elif kind is None:
                ctx.count("fixed_witnesses_held")


def load_replay(path: str) -> Dict[str, Any]:
    return json.loads(Path(path).read_text())


def replay_differential(ctx: Ctx, eng: diff.Engine, path: str) -> int:
    rep = load_replay(path)["case"]
    c = diff.Case(rep["backend"], rep["query"], rep["events"], [], None, wire=rep.get("wire", "ast"))
    results = []
    diff.differential(ctx, eng, [c], lambda cc, r: results.append(r))
    kind = shrink.failure_kind(results[0])
    print("replay:", kind, describe(results[0]) if kind else "held")
    return 1 if kind else 0
