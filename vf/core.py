"""Shared plumbing of the verification harness: run context, verdict discipline,
evidence files, replay files and the known-findings mechanism.

Nothing in here looks at func_adl_xAOD; it is the bookkeeping every check uses so
that verdicts are three-valued (held / violation / inconclusive) and every claim
is backed by counters the monitors measured on this run.
"""
from __future__ import annotations

import hashlib
import json
import os
import random
import shutil
import sys
import tempfile
import time
from collections import Counter
from pathlib import Path
from typing import Any, Callable, Dict, List, Optional

VERIF = Path(__file__).resolve().parent.parent
REPO = Path(os.environ.get("VERIF_REPO", "/repo"))
PY = "/venv/bin/python"
DEPS = VERIF / ".deps"
NCPU = int(os.environ.get("VERIF_JOBS", os.cpu_count() or 4))

EXIT_HELD, EXIT_VIOLATION, EXIT_INCONCLUSIVE = 0, 1, 2


class Inconclusive(Exception):
    """Infrastructure failed or the deciding monitor saw nothing."""


def ensure_deps():
    "icontract/deal live in a git-ignored directory; (re)install offline if absent."
    if not (DEPS / "icontract").is_dir():
        import subprocess

        r = subprocess.run(
            [PY, "-m", "pip", "install", "-q", "--no-index", "--find-links",
             "/opt/veriftools/wheels", "--target", str(DEPS), "icontract", "deal"],
            capture_output=True, text=True)
        if r.returncode != 0:
            raise Inconclusive("cannot install icontract offline: " + r.stderr[-300:])
    if str(DEPS) not in sys.path:
        sys.path.insert(0, str(DEPS))


def stable_hash(obj: Any) -> str:
    return hashlib.sha1(json.dumps(obj, sort_keys=True, default=str).encode()).hexdigest()[:12]


class Ctx:
    """One run of one check."""

    def __init__(self, prop: str, tier: str, seed: int, replay: Optional[str] = None):
        self.prop = prop
        self.tier = tier
        self.seed = seed
        self.replay = replay
        self.t0 = time.time()
        self.scratch = Path(tempfile.mkdtemp(prefix=f"vf_{prop}_"))
        self.counters: Counter = Counter()
        self.samples: List[Any] = []
        self.distinct: set = set()
        self.violations: List[Dict[str, Any]] = []
        self.known_hits: Counter = Counter()
        self.known_lines: List[str] = []
        self.notes: List[str] = []
        self.extra: Dict[str, Any] = {}
        self._findings = load_findings()
        self.inconclusive: List[str] = []

    # ---- deterministic randomness
    def rng(self, *parts) -> random.Random:
        return random.Random(":".join([str(self.seed), self.prop] + [str(p) for p in parts]))

    @property
    def quick(self) -> bool:
        return self.tier == "quick"

    def pick(self, quick, thorough):
        return quick if self.quick else thorough

    # ---- bookkeeping
    def count(self, key: str, n: int = 1):
        self.counters[key] += n

    def sample(self, s: Any, limit: int = 6):
        if len(self.samples) < limit:
            self.samples.append(s)

    def seen(self, signature: Any, nontrivial: bool = True):
        if nontrivial:
            self.distinct.add(stable_hash(signature) if not isinstance(signature, str) else signature)

    def elapsed(self) -> float:
        return time.time() - self.t0

    # ---- findings
    def known_entries(self, status="known") -> List[dict]:
        return [f for f in self._findings if f["property"] == self.prop and f["status"] == status]

    def all_known(self) -> List[dict]:
        return [f for f in self._findings if f["status"] == "known"]

    def known_finding(self, key: str, what: str):
        line = f"KNOWN-FINDING: property={self.prop} {key}: {what}"
        if not any(l.startswith(f"KNOWN-FINDING: property={self.prop} {key}:") for l in self.known_lines):
            self.known_lines.append(line)

    def violation(self, case: Dict[str, Any], why: str) -> str:
        """Record a violation; writes the replay file and returns its path."""
        d = VERIF / "out" / "replays" / self.prop
        d.mkdir(parents=True, exist_ok=True)
        body = {"property": self.prop, "why": why, "seed": self.seed, "tier": self.tier, "case": case}
        p = d / f"{stable_hash(case)}.json"
        p.write_text(json.dumps(body, indent=1, default=str))
        self.violations.append({"why": why, "replay": str(p)})
        return str(p)

    # ---- finish
    def finish(self, level: str, rule: str, assumptions: List[str], exhaustive: Optional[bool] = None,
               evaluations_key: str = "evaluations", min_distinct: int = 2) -> int:
        cov: Dict[str, Any] = {
            "evaluations": int(self.counters.get(evaluations_key, 0)),
            "distinct_nontrivial": len(self.distinct),
            "rule": rule,
            "samples": self.samples[:8] or ["(none)"],
            "counters": dict(sorted(self.counters.items())),
            "known_finding_hits": dict(self.known_hits),
            "known_findings_reported": self.known_lines,
        }
        if exhaustive is not None:
            cov["exhaustive"] = exhaustive
        cov.update(self.extra)
        if self.notes:
            cov["notes"] = self.notes
        if self.inconclusive:
            cov["inconclusive_reasons"] = self.inconclusive
        ev = {
            "property_id": self.prop,
            "tier": self.tier,
            "seed": self.seed,
            "level": level,
            "coverage": cov,
            "assumptions": assumptions,
            "wall_s": round(self.elapsed(), 2),
            "violations": len(self.violations),
        }
        if not getattr(self, "replay", None):
            # (a replay of one recorded case is not a run of the check: it leaves the check's evidence file alone)
            (VERIF / "evidence").mkdir(exist_ok=True)
            (VERIF / "evidence" / f"{self.prop}.json").write_text(json.dumps(ev, indent=1, default=str) + "\n")
        else:
            min_distinct = 0
        shutil.rmtree(self.scratch, ignore_errors=True)
        for line in self.known_lines:
            print(line)
        if self.violations:
            for v in self.violations[:20]:
                print(f"VIOLATION property={self.prop} replay={v['replay']}")
                print(f"  why: {v['why'][:600]}")
            return EXIT_VIOLATION
        if self.inconclusive or cov["evaluations"] < 1 or cov["distinct_nontrivial"] < min_distinct:
            print(f"INCONCLUSIVE property={self.prop} reasons={self.inconclusive or 'monitor observed too little'} "
                  f"evaluations={cov['evaluations']} distinct={cov['distinct_nontrivial']}")
            return EXIT_INCONCLUSIVE
        print(f"HELD property={self.prop} tier={self.tier} seed={self.seed} evaluations={cov['evaluations']} "
              f"distinct_nontrivial={cov['distinct_nontrivial']} wall_s={ev['wall_s']}")
        return EXIT_HELD


def load_findings() -> List[dict]:
    p = Path(os.environ.get("VERIF_KNOWN_FINDINGS_DEV", VERIF / "known_findings.json"))   # (development aid: try out a status change)
    if not p.exists():
        return []
    return json.loads(p.read_text())["findings"]


def parallel_map(fn: Callable, items: List[Any], workers: int = NCPU) -> List[Any]:
    "Thread pool (the work is subprocesses); results in input order."
    from concurrent.futures import ThreadPoolExecutor

    if not items:
        return []
    with ThreadPoolExecutor(max_workers=min(workers, len(items))) as ex:
        return list(ex.map(fn, items))
