"""Developer tool:  python -m vf.tools try <backend> '<query>' [nevents] [seed]
prints the emitted per-event code and, per event, reference vs. observed outcome."""
from __future__ import annotations

import random
import re
import sys

from . import diff, evgen, schema as sch
from .core import Ctx


def show_code(pkg, backend):
    f = pkg / ("query.cxx" if backend == "atlas" else "Analyzer.cc")
    txt = f.read_text()
    if backend == "atlas":
        i, j = txt.index("StatusCode query :: execute"), txt.index("StatusCode query :: finalize")
    else:
        i, j = txt.index("void Analyzer::analyze"), txt.index("// ------------ method called once each job just before")
    print("\n".join(l for l in txt[i:j].splitlines() if l.strip() and not l.strip().startswith("//") and "#" not in l))


def main():
    backend, q = sys.argv[2], sys.argv[3]
    n = int(sys.argv[4]) if len(sys.argv) > 4 else 6
    seed = int(sys.argv[5]) if len(sys.argv) > 5 else 1
    ctx = Ctx("TRY", "quick", seed)
    eng = diff.Engine(ctx)
    s = sch.fixed(backend)
    evs = evgen.gen_events(s, random.Random(seed), n)
    c = diff.Case(backend, q, evs, diff.members_used(s, q))
    tr = eng.translate([c])[0]
    print("translate:", tr["status"], tr.get("exc"))
    if tr["status"] != "ok":
        return
    show_code(c._pkg, backend)
    refs = eng.reference(c)
    br = eng.build_and_run(c)
    print("build:", br["build"] if not br["build"]["ok"] else "ok")
    if br["build"]["ok"]:
        run = br["runs"][0]
        print("book:", run["book"][0]["branches"] if run["book"] else None)
        for k in range(len(evs)):
            ob = run["events"].get(k)
            print(f"ev{k}: REF {refs[k][0]} {str(refs[k][1])[:150]}")
            print(f"      OBS {ob['status'] if ob else None} {[[v for _, v in r['cols']] for r in ob['rows']] if ob else ''} {ob.get('what') or '' if ob else ''} {[f for f in ob['flags'] if not f.startswith('TOKEN_USE')] if ob else ''}"[:400])
        print("verdict:", eng.judge(c, run, refs))
    import shutil
    shutil.rmtree(ctx.scratch, ignore_errors=True)


if __name__ == "__main__":
    main()
