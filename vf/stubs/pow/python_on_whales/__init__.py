"""Stand-in for python_on_whales: records what func_adl_xAOD asks docker to do and plays a
scripted container.  The 'container' sees the host directories through the requested volume
mounts only: it reads /scripts/filelist.txt and writes /results/ANALYSIS.root."""
import os
from pathlib import Path

from . import exceptions
from .exceptions import DockerException  # noqa: F401

CALLS = []          # one record per docker.run
SCRIPT = {"outcome": "ok", "k": 0, "nchunks": 3, "result_name": "ANALYSIS.root"}
CONTAINERS_STARTED = [0]


def _mounts(volumes):
    m = {}
    for v in volumes:
        host, point = v[0], str(v[1]).rstrip("/") or "/"
        mode = v[2] if len(v) > 2 else "rw"
        m[point] = (host, mode)
    return m


class _Docker:
    def run(self, image, command=(), volumes=(), remove=False, stream=False, **kw):
        rec = {"image": image, "command": list(command), "volumes": [tuple(str(x) for x in v) for v in volumes],
               "remove": remove, "stream": stream, "extra": {k: repr(v) for k, v in kw.items()}}
        CALLS.append(rec)
        CONTAINERS_STARTED[0] += 1
        m = _mounts(volumes)
        scripts = m.get("/scripts")
        rec["seen"] = {}
        if scripts is not None:
            sp = Path(str(scripts[0]))
            fl = sp / "filelist.txt"
            rec["seen"]["filelist"] = fl.read_text() if fl.exists() else None
            main = sp / (command[0].split("/")[-1] if command else "runner.sh")
            rec["seen"]["main_script_exists"] = main.exists()
            rec["seen"]["main_script_executable"] = main.exists() and os.access(main, os.X_OK)
            rec["seen"]["scripts_files"] = sorted(p.name for p in sp.iterdir())
            rec["seen"]["scripts_dir"] = str(sp)
        data = m.get("/data")
        if data is not None and data[0] not in (None, "None"):
            dp = Path(str(data[0]))
            if not dp.is_absolute():
                # docker reads a volume source that is not an absolute path as the NAME of a volume: the container gets an (empty)
                # named volume, not the host directory
                rec["seen"]["data_files"] = []
                rec["seen"]["data_source_is_a_volume_name"] = str(dp)
            else:
                rec["seen"]["data_files"] = sorted(p.name for p in dp.iterdir()) if dp.is_dir() else None
        script = dict(SCRIPT)

        def gen():
            n = script["nchunks"]
            for i in range(n):
                if script.get("write_at") == i:
                    # a job that dies late has usually opened (and partly filled) its output file already
                    res_early = m.get("/results")
                    if res_early is not None:
                        (Path(str(res_early[0])) / script["result_name"]).write_text(f"PARTIAL RESULT image={image} call={len(CALLS)}\n")
                        rec["wrote_partial"] = True
                if script["outcome"] == "fail_after" and i == script["k"]:
                    raise DockerException(["docker", "run", image], 1, b"", b"boom")
                data = f"chunk {i}\n".encode()
                if script.get("chunk_bytes") == "split_utf8":     # a multi-byte character cut by the chunk boundary
                    data = (b"width 5 \xc2" if i % 2 == 0 else b"\xb5m\n")
                elif script.get("chunk_bytes") == "latin1":        # job output that is not UTF-8 at all
                    data = b"caf\xe9 \xb5m\n"
                yield ("stdout" if (i % 2 == 0 or script.get("chunk_bytes") == "split_utf8") else "stderr", data)
            if script["outcome"] == "fail_after" and script["k"] >= n:
                raise DockerException(["docker", "run", image], 1, b"", b"boom at exit")
            if script["outcome"] in ("ok",):
                res = m.get("/results")
                if res is not None:
                    out = Path(str(res[0])) / script["result_name"]
                    out.write_text(f"RESULT image={image} filelist={rec['seen'].get('filelist')!r} call={len(CALLS)}\n")
                    rec["wrote"] = str(out)
        if stream:
            return gen()
        return b"".join(c for _, c in gen())


docker = _Docker()
