. /stubs/sourced_common.sh
mon_sourced externals_setup
