. /stubs/sourced_common.sh
export AnalysisBaseExternals_PLATFORM=x86_64-centos7-gcc8-opt
mon_sourced release_setup
