# sourced by every stub tool: logging + on-demand failure
# env: MON_LOG (dir), FAIL="tool[@n]" (fail the n-th invocation of tool within this runner invocation; default every), RUN_ID
mon_tool="$1"; shift
mon_n=$(( $(cat "$MON_LOG/count.$mon_tool" 2>/dev/null || echo 0) + 1 ))
echo $mon_n > "$MON_LOG/count.$mon_tool"
printf '%s\t%s\t%s\t%s\n' "$RUN_ID" "$mon_tool" "$(pwd)" "$*" >> "$MON_LOG/commands.log"
# FAIL entries: tool | tool@n (n-th invocation) | tool+late (the tool does its work, THEN dies: a job crashing after it created output)
mon_fail_mode=""
mon_should_fail() {
  local spec
  for spec in ${FAIL//,/ }; do
    local mode="early"
    if [[ "$spec" == *+late ]]; then mode="late"; spec="${spec%+late}"; fi
    local t="${spec%@*}" k=""
    [[ "$spec" == *@* ]] && k="${spec#*@}"
    if [ "$t" == "$mon_tool" ] && { [ -z "$k" ] || [ "$k" == "$mon_n" ]; }; then mon_fail_mode=$mode; return 0; fi
  done
  return 1
}
