# sourced stubs: log; fail on demand by returning non-zero as the LAST command of the sourced file
mon_sourced() {
  printf '%s\t%s\t%s\t\n' "$RUN_ID" "$1" "$(pwd)" >> "$MON_LOG/commands.log"
  local spec
  for spec in ${FAIL//,/ }; do [ "$spec" == "$1" ] && return 7; done
  return 0
}
