. /stubs/sourced_common.sh
export CVSROOT=:model:
mon_sourced cms_entrypoint
