"""Regenerates /verif/MANIFEST.json from the table below:  python -m vf.manifest_gen"""
from __future__ import annotations

import json
from pathlib import Path

VERIF = Path(__file__).resolve().parent.parent

CHECKS = {
    "C01": dict(cat="exploration", technique="differential execution of sanitized generated jobs vs. Python evaluation of the same AST (runtime monitor: stand-in TTree/event store log)",
                text="Random in-fragment queries are translated by the real translator, the emitted C++ is compiled unmodified with ASan+UBSan against a model EDM "
                     "whose TTree/event store log every BOOK/BRANCH/RETRIEVE/FILL, run on hostile events and compared row by row with eval() of the same AST. "
                     "Held = no disagreement on the decided events of this run; says nothing about query shapes the generator does not form.",
                note="model EDM stands for AnalysisBase/CMSSW/ROOT; Python LINQ runtime is the reference; UNSPEC events (evaluation-order dependent, ill-conditioned) are not compared; "
                     "shapes of the listed known findings are kept out of the random workload (their witnesses are re-run every time)", ref="4/C01"),
    "C14": dict(cat="exploration", technique="oracle over rendered files with uniquely tagged payload lines + icontract post-condition on process_metadata",
                text="Random multisets of inject_code blocks (unique tag per line, jinja-special payloads, duplicates, conflicts, unknown fields) go through the real executor; "
                     "each tagged line must occur exactly once, unaltered, in the structural region documented for its field; conflicts must raise. A sample is compiled.",
                note="regions located by the templates' own anchor lines; CMS backends: body includes only (as the property states)", ref="4/C14"),
    "C15": dict(cat="exploration", technique="icontract post-condition on the real generate_script_block vs. an independent Kahn's-algorithm reference; exhaustive small bounds + random",
                text="Every arrival sequence of <=3 blocks over 3 names and <=4 blocks over 2 names (all depends_on subsets, equal/different scripts) plus random DAGs/cycles up to 30 blocks; "
                     "output must be whole blocks, once each, dependencies first; ValueError exactly for conflicts, missing dependencies and cycles. Same checker on rendered job options.",
                note="exhaustive only within the stated bounds", ref="4/C15"),
    "C16": dict(cat="fault_enumeration", technique="unmodified runner.sh executed in a mount-namespace container model with logging/failing stub tools; oracle over exit status, destination contents (run id / build token) and command log",
                text="The three rendered runner.sh scripts are run over an enumerated matrix of flag combinations x invocation histories x every single failing step "
                     "(environment setup, each cp, cmake/make or mkedanlzr/scram, the job, format conversion, sudo); exit 0 must coincide with this run's output at the destination, "
                     "a failed step with a non-zero exit and nothing fresh delivered.",
                note="stub tools stand for the real build/run tools (their exit-status conventions are trusted); needs unshare -m (else inconclusive)", ref="4/C16"),
    "C17": dict(cat="fault_enumeration", technique="real LocalDataset classes run in fresh interpreters against a recording stand-in python_on_whales with scripted container outcomes; audit hook on tempfile.mkdtemp",
                text="File lists x images x docker metadata x output directories x container outcomes (success, DockerException after every k-th output chunk, missing result) are enumerated; "
                     "the oracle reads the arguments docker.run received, filelist.txt as the container sees it through the mounts, returned paths/contents, exceptions and leftover temp dirs; "
                     "multi-step sequences in one interpreter check that nothing leaks from one execution into the next.",
                note="the stand-in docker client sees the host only through the requested mounts; the real docker daemon is not involved", ref="4/C17"),
    "C07": dict(cat="exploration", technique="history-vs-pristine-process comparison of name-normalised packages + registry snapshot monitor at quiescent points; sys.monitoring failpoints (exceptions in the thorough tier, KeyboardInterrupt in both tiers)",
                text="Random histories (successful/failing translations on reused and new executors declaring method types, enums, collections, functions, job scripts, inject code, extended metadata) "
                     "are followed by sensitive probe queries; each probe's rendered package or error must equal what a pristine process produces. After every step the process-global registries are "
                     "snapshotted so that a violation names the step that leaked.",
                note="pristine = fork()ed child of an interpreter that only imported the package; probes are a fixed sensitive set (listed in evidence), histories are random, half of each history's probes are the ones sensitive to what it declared; a query that is transformed but never written is not a history step", ref="4/C07"),
    "C08": dict(cat="exploration", technique="metamorphic comparison of name-normalised rendered packages across meaning-preserving query variants; sample of renamed variants executed under the C01 oracle",
                text="Every generated query is rewritten by variant generators (qastle round trip for queries qastle carries faithfully, capture-avoiding alpha-renaming with hostile names, "
                     "MetaData re-attached at every point of the main chain, Select.Select/Where.Where fusion, method<->function style); all variants must be accepted/refused alike and render the same package.",
                note="identifier renumbering applied identically to both sides; the query text quoted in the First() error message is masked", ref="4/C08"),
    "C09": dict(cat="exploration", technique="refusal oracle over grafted queries: a catalogue of unsupported constructs placed at live positions of valid queries; returned packages are compiled to show what was dropped",
                text="Each unsupported construct (operators, comparison chains, Aggregate arities, slices, arithmetic/comparison/negation on sequences, raw objects, value-as-sequence, label counts, "
                     "getAttribute, malformed/unknown metadata, keyword arguments) is grafted at 23 kinds of live position with random valid filler expressions on all three backends; "
                     "translation must raise (any exception type).",
                note="positions are live by construction; the catalogue is finite and listed in the evidence file", ref="4/C09"),
    "C13": dict(cat="exploration", technique="exhaustive operator x operand-kind table executed as columns of sanitized generated jobs; values and booked column types compared with Python's results",
                text="Every cell of {+,-,*,/,%,**} x 8 operand kinds squared, unary x kinds, comparisons x kind pairs, Sum/Min/Max/Aggregate x element kind x seed kind and conditionals x arm kinds "
                     "is an output column of a per-object query; the job's value on every decided object and the booked column type class must agree with Python. Exhaustive over the table, "
                     "sampled over values.",
                note="conditional / Min / Max / ** columns may be floating (as C03 and C13 word it); rows with zero divisors, complex or huge results are UNSPEC", ref="4/C13"),
    "C12": dict(cat="exploration", technique="documented function table executed as columns of sanitized generated jobs and compared with the C library symbol of the same name (ctypes)",
                text="The README's math-function list is parsed and cross-checked with the translator's table; every function is evaluated by a compiled job standalone, inside arithmetic "
                     "(f+1, 2*f, f/2, g(f), f*member), and with literal arguments, at argument values from event data inside its domain; values must agree with libm to 1e-9; integer-typed and float-typed arguments, calls on literals, and IEEE-exact cells compiled with the compiler options the package's own build description requests.",
                note="exhaustive over the documented list, sampled over argument values; 'namesake' = libm symbol (ln = log)", ref="4/C12"),
    "C04": dict(cat="exploration", technique="per-event outcome equivalence (rows | loud fault) between sanitized generated jobs and the Python evaluation; poisoned-null monitor and ASan/UBSan as spurious-fault detectors",
                text="Enumerated guard templates (guarded and unguarded First/index/nullable links at event, element and chain level) plus random queries biased to partial operations run on events "
                     "with empty / singleton / many collections and null / non-null links; a reference fault must end the event loudly, a defined event must end OK with the right rows and "
                     "without NULL_DEREF records or sanitizer reports.",
                note="events where lazy/eager/skip-unused orders disagree are UNSPEC; any loud ending matches a reference fault", ref="4/C04"),
    "C05": dict(cat="exploration", technique="reference-free metamorphic test: rows per event from one compiled job run over the full list, permutations, singletons and a split into two jobs; trace specification over the rendered ATLAS job options executed against a recording EventLoop stand-in",
                text="For queries rich in per-event state (accumulators, first flags, vector columns, event-level Where, Range, opaque user C++), the rows attributed to each event must be identical "
                     "whether the event is processed alone, in any order, or in a different job (events lacking a product included). The job options must schedule the generated algorithm alone and ask nothing else of the job.",
                note="post-fault state excluded (driver starts a fresh job object after an exception, as the real job would be dead)", ref="4/C05"),
    "C03": dict(cat="exploration", technique="booking log of the stand-in TTree (branch name, exact C++ type, address) + rows read through the bound addresses at Fill(), compared with the query's final shape and Python's value kinds; container-model run for the delivered file name",
                text="Terminal forms (bare, tuple, list, dict, nested sequences, explicit ResultTTree with arbitrary names) x generated and bare-declared-member columns x 3 backends: branch names/order/count, "
                     "vector nesting, element type class (exact declared type for bare members), distinct storage per branch, tree name in descriptor = tree booked and filled, descriptor file name = "
                     "file runner.sh delivers, label-count mismatches raise.",
                note="type expectations are classes except for bare declared members; conditional/Min/Max/** columns may be floating", ref="4/C03"),
    "C18": dict(cat="exploration", technique="constants observed where they arrive in the executed job: output columns (bit-exact), hex-logged bank / attribute / tree / branch names and injected-function arguments at the model EDM",
                text="Integers (incl. int32/int64 limits and beyond), floats in every repr() notation, booleans and strings over a hostile alphabet are placed as output values, bank names, "
                     "attribute names, injected-function arguments, tree names, branch names and dict keys; the value received by the running job must equal the Python constant exactly, or "
                     "translation must raise.",
                note="NaN has no Python literal and is not formed; inf is formed as 1e999", ref="4/C18"),
    "C11": dict(cat="exploration", technique="icontract post-condition on the real cpp_ast.process_ast_node (independent token-wise simultaneous substitution, freshness, scoping) + execution of random executable specifications against the Python formula",
                text="Random function/method specifications with adversarial parameter names and look-alike temporaries, custom result names, double/int/float returns, nested and repeated calls, "
                     "plus DeltaR / isNonnull / getAttributeFloat / getAttributeVectorFloat: every call is checked by a contract inside the translating process and the compiled job's values are "
                     "compared with the same arithmetic evaluated by Python; wrong arity and call style must be refused.",
                note="executable bodies are restricted to arithmetic so Python can evaluate them; contract evaluations are counted (zero = inconclusive)", ref="4/C11"),
    "C06": dict(cat="exploration", technique="request log of the model event store / edm::Event (idiom, container type, bank, token serial) + compile/link of emitted code against per-collection model headers and libraries; exhaustive malformed-declaration matrix",
                text="Built-in and metadata-declared collections (own header and library; one replacing a built-in name) are used 1-3 per query with hostile bank strings on all backends: the "
                     "job must request exactly the named (container type, bank) pairs with the backend's idiom, one initialised token per use on miniAOD, fail cleanly on an absent ATLAS bank, "
                     "and compile/link only through the headers/libraries the specification lists. Every malformed declaration or call of the enumerated matrix must be refused.",
                note="a decoy bank of the same name under another container type is present in half of the events", ref="4/C06"),
    "C10": dict(cat="exploration", technique="emitted code compiled and executed against model classes GENERATED FROM THE SAME DECLARATIONS the query carries; icontract post-condition on base_type_member_access; logging handler for the undeclared-method warning",
                text="One schema per backend holds a method for every declared-signature form (value types, object by value / pointer / const pointer / pointer-to-pointer, collections by value / "
                     "reference / pointer of scalars, objects and object pointers, deref_count 1 and 2 through operator->/operator* layers, tree_type, nested-scope enums, undeclared); each is driven "
                     "through chain templates of length 1-4 and the job's values and booked types are compared with Python and the declarations.",
                note="signature forms are an enumerated catalogue, values are random; elements by pointer (ATLAS) and by value (CMS)", ref="4/C10"),
    "C02": dict(cat="exploration", technique="compiler-as-oracle on emitted packages (clang, ASan+UBSan build, shadow diagnostics; static 'uninitialized' suspicions decided by valgrind memcheck on the real events), include monitor (<cmath>), runtime identifier monitor on unique_name in the translating process (declared once, scoped, basic character set), completeness audit of the output directory, template-provenance monitor (every file is rendered from this backend's template of that name), second compiler pass (g++ -fsyntax-only at the language level of the target release); valgrind sample in the thorough tier",
                text="Every accepted translation of generated and metadata-heavy queries (equal volume on the three backends) is checked for a complete file set, executable entry script and no "
                     "surviving template directive; the unmodified C++ is compiled, linked and run against the model EDM; every identifier minted during the translation is audited in the rendered "
                     "text: declared exactly once, before its first use, in a block enclosing all uses. A fifth of the packages are written after queries of the other backends in the same process.",
                note="compiled against the model framework shells, not the real AnalysisBase/CMSSW headers; MSan is not used (no instrumented libstdc++): valgrind stands in on a sample", ref="4/C02"),
}

PENDING_REASON = "check not built yet at this commit (work in progress, see DESIGN.md section 4)"


def main():
    props = [json.loads(l)["id"] for l in (VERIF / "properties.jsonl").read_text().splitlines() if l.strip()]
    checks = []
    for pid in props:
        if pid not in CHECKS:
            continue
        c = CHECKS[pid]
        checks.append({
            "property_id": pid,
            "quick_cmd": f"./check {pid} --tier quick",
            "thorough_cmd": f"./check {pid} --tier thorough",
            "evidence_file": f"/verif/evidence/{pid}.json",
            "replay_cmd_template": f"./check {pid} --replay {{path}}",
            "engine": "vf",
            "level_claimed": {"category": c["cat"], "text": c["text"], "design_ref": "DESIGN.md section " + c["ref"]},
            "level_note": c["note"],
            "technique": c["technique"],
        })
    m = {
        "version": 1,
        "setup_cmd": "./setup.sh",
        "hooks": {"guard": "FUNC_ADL_XAOD_VERIF",
                  "enable": "no source hooks: every monitor attaches from the harness (icontract wrappers, stand-in runtimes, model EDM, stub tools)",
                  "baseline_off_cmd": "cd /repo && /venv/bin/python -m pytest -ra -q -p no:cacheprovider --timeout=900 --continue-on-collection-errors",
                  "source_commits": [], "add_only": True},
        "engines": [{"name": "vf", "path": "/verif/vf", "serves_properties": sorted(CHECKS),
                     "kind_free_text": "runtime monitoring harness: real translator in forked workers, emitted C++ compiled with ASan+UBSan against an instrumented model EDM, "
                                       "Python reference evaluation, icontract contracts, container model for runner.sh, stand-in docker client"}],
        "checks": checks,
        "not_applicable": [{"property_id": p, "reason": PENDING_REASON} for p in props if p not in CHECKS],
        "notes": "exit 0 held / 1 VIOLATION / 2 INCONCLUSIVE (infrastructure or monitor saw nothing). known_findings.json lists genuine defects (known/fixed).",
    }
    (VERIF / "MANIFEST.json").write_text(json.dumps(m, indent=1) + "\n")
    print("wrote MANIFEST.json with", len(checks), "checks")


if __name__ == "__main__":
    main()
