"""Prepares a round of independently written, deliberately breaking changes (DESIGN section 7b).

  python -m vf.seedround prepare            # one scratch worktree /tmp/wt/<Cnn> + /tmp/seed_out/<Cnn>/PROMPT.txt per property
  python -m vf.seedround save <label>       # copy the deliveries to seeded/_incoming_<label>/ (commit them: /tmp does not survive a restore)
  python -m vf.seedround cleanup            # remove the scratch worktrees

Each sub-agent is then started with: "Read the file /tmp/seed_out/<Cnn>/PROMPT.txt and carry out the task it describes exactly".
The prompt holds the property text, the worktree path and one-line summaries of the changes EARLIER AUTHORS wrote for that
property (their own words, taken from seeded/*/meta.json) - nothing about the checks."""
from __future__ import annotations

import json
import os
import shutil
import subprocess
import sys
from pathlib import Path

VERIF = Path(__file__).resolve().parent.parent
OUT = Path(os.environ.get("SEED_OUT", "/tmp/seed_out"))
WT = Path(os.environ.get("SEED_WT", "/tmp/wt"))


def previous_summaries():
    prev = {}
    dirs = sorted(p for p in (VERIF / "seeded").iterdir() if p.is_dir() and not p.name.startswith("_"))
    for d in dirs:
        mf = d / "meta.json"
        if mf.exists():
            m = json.loads(mf.read_text())
            prev.setdefault(m["breaks_property"], []).append((m.get("summary") or "")[:230].replace("\n", " "))
    for inc in sorted((VERIF / "seeded").glob("_incoming_*")):
        for d in sorted(inc.iterdir()):
            for mf in sorted(d.glob("meta*.json")):
                try:
                    prev.setdefault(d.name, []).append((json.loads(mf.read_text()).get("summary") or "")[:230].replace("\n", " "))
                except Exception:
                    pass
    return prev


def prepare():
    props = {}
    for l in (VERIF / "properties.jsonl").read_text().splitlines():
        d = json.loads(l)
        props[d["id"]] = d
    prev = previous_summaries()
    OUT.mkdir(parents=True, exist_ok=True)
    WT.mkdir(parents=True, exist_ok=True)
    for pid, p in props.items():
        wt = WT / pid
        if not wt.exists():
            subprocess.run(f"git -C /repo worktree add -q --detach {wt} HEAD", shell=True, check=True)
        else:
            subprocess.run(f"git -C {wt} checkout -q -- . && git -C {wt} clean -fdq && git -C {wt} checkout -q --detach $(git -C /repo rev-parse HEAD)", shell=True, check=True)
        d = OUT / pid
        if d.exists():
            shutil.rmtree(d)
        d.mkdir(parents=True)
        txt = f"""You are helping test a verification effort for the open-source Python project iris-hep/func_adl_xAOD (a translator from func_adl/qastle LINQ-style query ASTs to C++ analysis code for ATLAS xAOD and CMS AOD/miniAOD, plus runner scripts and a local docker dataset runner).

You have your own scratch git worktree of the repository at {wt} (detached HEAD). Work ONLY there. Never touch /repo or /verif, never read anything under /verif. The interpreter is /venv/bin/python; run things as `cd {wt} && PYTHONPATH={wt} /venv/bin/python ...` so your worktree's copy of the package is the one imported. The test suite is `cd {wt} && PYTHONPATH={wt} /venv/bin/python -m pytest -q -p no:cacheprovider` (316 tests pass on the unchanged tree). There is no network. g++ and clang++ are available if you want to compile emitted C++ against small hand-written stand-ins.

Here is a semantic property that the project is supposed to satisfy:

ID: {pid}
Title: {p['title']}
Statement: {p['statement']}
Quantifier: {p.get('quantifier')}
Why the unit tests cannot settle it: {p.get('why_tests_cant')}
Code anchors: {json.dumps(p.get('anchors'))}

YOUR TASK: produce TWO independent, different, realistic changes to the repository (like a plausible refactoring slip, 'optimisation', 'robustness improvement', tidy-up or half-finished feature a real contributor might make), each of which BREAKS this property while the package still imports, and the ENTIRE existing test suite (all 316 tests, unedited) still passes with the change applied. Each change must need something SPECIFIC to manifest: an unusual but legitimate input, a multi-step sequence of operations, a particular history of earlier queries, a fault at a particular point, or two cooperating sites that each look fine alone. Changes that ordinary use would expose at once (every query broken) are not wanted. Prefer subtle semantic breaks (wrong values / wrong placement / stale state / silently dropped things / wrong type) over crashes. The break must be reachable through the documented ways of using the package (a query, its metadata, the executor / dataset classes as the README uses them, the generated runner script) - not only through calling an internal helper directly or through re-using an already transformed query.

Earlier contributors already produced the changes summarised below for this property; yours must use DIFFERENT mechanisms and preferably different functions/files, and different kinds of triggering input:
""" + "\n".join(f"  - {s}" for s in prev.get(pid, [])) + f"""

For each change k in (1, 2) deliver, in {d}/:
  - patch{{k}}.diff : `git diff` of your worktree against HEAD for that change alone (must apply with `git apply` to a clean checkout of HEAD; only files of the repository proper, no tests edited, no new test files in the patch).
  - demo{{k}}.py : a self-contained demonstration program that exits 0 on the unchanged tree and exits non-zero (printing what went wrong) with the change applied. It is run as `cd <tree> && PYTHONPATH=<tree> /venv/bin/python demo{{k}}.py` from the root of a checkout, so import func_adl_xAOD normally and do not hard-code your worktree path. It should demonstrate the property being broken in terms of observable behaviour (emitted code / executed result / files / exit status), not merely that the source text changed. It may compile and run emitted C++ with g++ against a small stand-in if that makes the demonstration convincing, or it may inspect emitted code; make it deterministic and < 2 minutes.
  - meta{{k}}.json : {{"summary": "<which file/function, what was changed and why it looks innocent, what goes wrong>", "needs_to_manifest": "<the specific input/sequence/fault needed>", "how_demonstrated": "<what demo does and what it prints without/with the change>"}}

Procedure for each change: make it in the worktree; run the full test suite (must be 316 passed); run your demo (must fail); save the diff; `git -C {wt} checkout -- . && git -C {wt} clean -fdq func_adl_xAOD` to return to HEAD; run the demo again (must exit 0); then do the second change from the clean tree. Verify at the end that both patch files apply to the clean tree one at a time. Leave the worktree clean. Do not commit anything. If you notice behaviour of the UNCHANGED tree that already contradicts the property, mention it briefly at the end of your final message (do not build on it). Your final message should just list the two changes in two or three sentences each and confirm the checks you ran.
"""
        (d / "PROMPT.txt").write_text(txt)
    print(f"{len(props)} prompts under {OUT}, worktrees under {WT}")


def save(label: str):
    dst = VERIF / "seeded" / f"_incoming_{label}"
    n = 0
    for d in sorted(OUT.iterdir()):
        if not d.is_dir():
            continue
        (dst / d.name).mkdir(parents=True, exist_ok=True)
        for f in d.iterdir():
            if f.name != "PROMPT.txt" and f.is_file():
                shutil.copy(f, dst / d.name / f.name)
                n += 1
    print(f"{n} files saved under {dst}")


def cleanup():
    for d in sorted(WT.iterdir()):
        subprocess.run(f"git -C /repo worktree remove --force {d}", shell=True)
    subprocess.run("git -C /repo worktree prune", shell=True)


if __name__ == "__main__":
    cmd = sys.argv[1]
    if cmd == "prepare":
        prepare()
    elif cmd == "save":
        save(sys.argv[2])
    else:
        cleanup()
