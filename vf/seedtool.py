"""Verify a seeded change and run checks against it.

  python -m vf.seedtool verify <dir> <k>          # <dir>/patch<k>.diff + demo<k>.py: tests pass with it, demo fails with it and passes without
  python -m vf.seedtool run <patch> C01 [C04 ...] # git -C /repo apply, run the checks (quick), git -C /repo checkout -- .
"""
from __future__ import annotations

import json
import os
import subprocess
import sys
import time
from pathlib import Path

REPO = os.environ.get("SEED_REPO", "/repo")  # where the change is applied for the checks (a scratch worktree while /repo is busy)
PY = "/venv/bin/python"
SCR = os.environ.get("SEED_SCR", "/tmp/wtv")


def sh(cmd, **kw):
    return subprocess.run(cmd, shell=True, capture_output=True, text=True, **kw)


def verify(d: str, k: str):
    d = Path(d)
    patch, demo = d / f"patch{k}.diff", d / f"demo{k}.py"
    if not Path(SCR).exists():
        sh(f"git -C /repo worktree add -q --detach {SCR} HEAD")
    sh(f"git -C {SCR} reset -q --hard; git -C {SCR} checkout -q --detach $(git -C /repo rev-parse HEAD) && git -C {SCR} clean -fdq")  # SCR is a scratch worktree
    out = {"patch": str(patch)}
    env = f"cd {SCR} && PYTHONPATH={SCR}"
    r0 = sh(f"{env} {PY} {demo}", timeout=600)
    out["demo_unchanged_rc"] = r0.returncode
    a = sh(f"git -C {SCR} apply {patch}")
    if a.returncode:
        a = sh(f"git -C {SCR} apply --3way {patch} && git -C {SCR} reset -q")
    out["applies"] = a.returncode == 0
    if not out["applies"]:
        sh(f"git -C {SCR} reset -q --hard")
        out["apply_err"] = a.stderr[-300:]
        print(json.dumps(out, indent=1))
        return out
    t = sh(f"{env} {PY} -m pytest -q -p no:cacheprovider 2>&1 | tail -1", timeout=900)
    out["tests"] = t.stdout.strip()
    r1 = sh(f"{env} {PY} {demo}", timeout=600)
    out["demo_changed_rc"] = r1.returncode
    out["demo_changed_msg"] = (r1.stdout + r1.stderr)[-300:]
    sh(f"git -C {SCR} reset -q --hard && git -C {SCR} clean -fdq")
    out["ok"] = out["demo_unchanged_rc"] == 0 and out["demo_changed_rc"] != 0 and "316 passed" in out["tests"] and "failed" not in out["tests"]
    print(json.dumps(out, indent=1))
    return out


def run(patch: str, checks):
    st = sh(f"git -C {REPO} status --porcelain --untracked-files=no")
    if st.stdout.strip():
        print("refusing: /repo has uncommitted changes", st.stdout)
        return
    a = sh(f"git -C {REPO} apply {patch}")
    if a.returncode:
        a = sh(f"git -C {REPO} apply --3way {patch} && git -C {REPO} reset -q")
    if a.returncode:
        print("patch does not apply:", a.stderr)
        return
    res = {}
    try:
        for c in checks:
            t0 = time.time()
            r = sh(f"cd {os.environ.get('VERIF_DIR', '/verif')} && VERIF_REPO={REPO} ./check {c} --tier quick", timeout=1800)
            lines = [l for l in r.stdout.splitlines() if l.startswith(("VIOLATION", "  why", "HELD", "INCONCLUSIVE"))]
            res[c] = {"rc": r.returncode, "wall_s": round(time.time() - t0, 1), "first": lines[:2]}
            print(c, r.returncode, round(time.time() - t0, 1), (lines[1] if len(lines) > 1 else (lines[0] if lines else ""))[:400])
    finally:
        sh(f"git -C {REPO} checkout -- . && git -C {REPO} clean -fdq func_adl_xAOD")
    return res


def batch(ids):
    "for every delivered patch of the given property ids: verify it, then run the property's own check against it"
    outp = Path(os.environ.get("SEED_RESULTS", "/tmp/seed_results.jsonl"))
    extra = {}  # SEED_EXTRA="C05:2=C16,C02:2=C11": further checks to run against one change
    for item in filter(None, os.environ.get("SEED_EXTRA", "").split(",")):
        key, chk = item.split("=")
        extra.setdefault(tuple(key.split(":")), []).append(chk)
    for pid in ids:
        d = Path(os.environ.get("SEED_OUT", "/tmp/seed_out")) / pid
        for k in ("1", "2"):
            if not (d / f"patch{k}.diff").exists() or not (d / f"demo{k}.py").exists():
                continue
            rec = {"id": pid, "k": k}
            try:
                v = verify(str(d), k)
                rec["verify"] = v
                if v.get("ok"):
                    rec["checks"] = run(str(d / f"patch{k}.diff"), [pid] + extra.get((pid, k), []))
            except Exception as e:
                rec["error"] = repr(e)
            with outp.open("a") as fh:
                fh.write(json.dumps(rec) + "\n")


if __name__ == "__main__":
    if sys.argv[1] == "batch":
        batch(sys.argv[2:])
    elif sys.argv[1] == "verify":
        verify(sys.argv[2], sys.argv[3])
    else:
        run(sys.argv[2], sys.argv[3:])
