"""Drives the real translator.

`run_batch(requests)` starts ONE fresh /venv interpreter that imports func_adl_xAOD from
/repo's working tree and then fork()s one child per request, so every request sees the
pristine post-import process state ("first query of a fresh process") without paying the
interpreter start-up 10^4 times.  The parent never translates anything.  A request names
the function to run in the child (`fn`: "module:function") and its JSON arguments; the
child's JSON result comes back through a file.

The default function `translate_job` does exactly what LocalDataset does:
`exe.write_cpp_files(exe.apply_ast_transformations(ast), out_dir)`.
"""
from __future__ import annotations

import ast
import importlib
import json
import os
import signal
import subprocess
import sys
import time
import traceback
from pathlib import Path
from typing import Any, Dict, List

from .core import NCPU, PY, REPO, VERIF, Inconclusive


# ---------------------------------------------------------------- query text -> AST
def parse_query(src: str) -> ast.AST:
    """Query text (method or function style, dataset called `ds`) -> the AST the
    translator is handed.  `ds` becomes the `EventDataset()` call func_adl produces and a
    method-style `.MetaData(...)` becomes the function form func_adl emits."""
    import sys
    # building the AST is the harness's own work: it must not be what fails for a very deep query (the limit is restored before
    # the translator is called)
    old_limit = sys.getrecursionlimit()
    sys.setrecursionlimit(max(old_limit, 20000))
    try:
        return _parse_query(src)
    finally:
        sys.setrecursionlimit(old_limit)


def _parse_query(src: str) -> ast.AST:
    a = ast.parse(src.strip(), mode="eval").body

    class R(ast.NodeTransformer):
        def visit_Name(self, n):
            if n.id == "ds":
                return ast.Call(func=ast.Name("EventDataset", ast.Load()), args=[], keywords=[])
            if n.id in ("NEGONE", "NEGHALF", "NEGBIG"):
                # negative constants as constant NODES (a captured variable off = -1), not as unary minus applied to a literal
                return ast.Constant({"NEGONE": -1, "NEGHALF": -0.5, "NEGBIG": -2147483647}[n.id])
            if n.id == "NEGZERO":
                # no Python literal denotes the constant -0.0 ("-0.0" is a unary minus): a captured variable does
                return ast.Constant(-0.0)
            return n

        def visit_Call(self, n):
            n = self.generic_visit(n)
            if isinstance(n.func, ast.Attribute) and n.func.attr == "MetaData":
                return ast.Call(func=ast.Name("MetaData", ast.Load()), args=[n.func.value] + n.args, keywords=n.keywords)
            return n

    return ast.fix_missing_locations(R().visit(a))


def executor_for(backend: str):
    if backend == "atlas":
        from func_adl_xAOD.atlas.xaod.executor import atlas_xaod_executor

        return atlas_xaod_executor()
    if backend == "cms_aod":
        from func_adl_xAOD.cms.aod.executor import cms_aod_executor

        return cms_aod_executor()
    if backend == "cms_miniaod":
        from func_adl_xAOD.cms.miniaod.executor import cms_miniaod_executor

        return cms_miniaod_executor()
    raise ValueError(backend)


class _LogCatcher:
    def __init__(self):
        import logging

        self.records: List[Dict[str, str]] = []

        class H(logging.Handler):
            def emit(h, rec):  # noqa: N805
                self.records.append({"name": rec.name, "level": rec.levelname, "msg": rec.getMessage()})

        self.h = H()
        logging.getLogger().addHandler(self.h)
        logging.getLogger().setLevel(logging.INFO)


def exc_info(e: BaseException) -> Dict[str, Any]:
    tb = traceback.extract_tb(e.__traceback__)
    last = tb[-1] if tb else None
    return {
        "type": type(e).__name__,
        "msg": str(e)[:600],
        "where": f"{Path(last.filename).name}:{last.name}" if last else "?",
        "line": last.lineno if last else 0,
    }


def translate_job(args: Dict[str, Any]) -> Dict[str, Any]:
    """args: backend, query (text), out (dir), optional: wire ('ast'|'qastle'),
    monitors (list of 'module:function' run as monitor(args, phase, payload))."""
    backend = args["backend"]
    out = Path(args["out"])
    out.mkdir(parents=True, exist_ok=True)
    logs = _LogCatcher()
    res: Dict[str, Any] = {"status": "?", "logs": logs.records}
    mons = []
    for m in args.get("monitors", []):
        mod, fn = m.split(":")
        mons.append(getattr(importlib.import_module(mod), fn))
    state: Dict[str, Any] = {}
    try:
        a = parse_query(args["query"])
        if args.get("wire") == "qastle":
            import qastle

            a = qastle.text_ast_to_python_ast(qastle.python_ast_to_text_ast(a)).body[0].value
        for m in mons:
            m(args, "before", state)
        exe = executor_for(backend)
        # optional earlier queries handled by the SAME executor object (their outcome is not the subject)
        for k, pq in enumerate(args.get("pre_queries", [])):
            try:
                if isinstance(pq, dict):   # an earlier query of ANOTHER backend in this process (an executor of its own)
                    exe2 = executor_for(pq["backend"])
                    exe2.write_cpp_files(exe2.apply_ast_transformations(parse_query(pq["query"])), out.parent / (out.name + f"_pre{k}"))
                    continue
                exe.write_cpp_files(exe.apply_ast_transformations(parse_query(pq)), out.parent / (out.name + f"_pre{k}"))
            except BaseException:  # noqa: B036
                pass
            (out.parent / (out.name + f"_pre{k}")).mkdir(exist_ok=True)
        info = exe.write_cpp_files(exe.apply_ast_transformations(a), out)
        res["status"] = "ok"
        res["info"] = {
            "treename": getattr(info.result_rep, "treename", None),
            "filename": getattr(info.result_rep, "filename", None),
            "main_script": info.main_script,
            "all_filenames": list(info.all_filenames),
            "output_path": str(info.output_path),
        }
    except BaseException as e:  # noqa: B036 - any exception type is a refusal
        res["status"] = "raised"
        res["exc"] = exc_info(e)
    for m in mons:
        try:
            m(args, "after", state)
        except BaseException as e:  # monitor bug must not masquerade as a verdict
            state.setdefault("monitor_errors", []).append(repr(e)[:300])
    res["monitor"] = {k: v for k, v in state.items() if not k.startswith("_")}
    return res


# ---------------------------------------------------------------- batch runner (in the /venv interpreter)
def _child(req: Dict[str, Any], resfile: str, timeout: int):
    signal.alarm(timeout)
    try:
        mod, fn = req.get("fn", "vf.xlate:translate_job").split(":")
        f = getattr(importlib.import_module(mod), fn)
        out = f(req["args"])
    except BaseException as e:  # harness-level failure inside the child
        out = {"status": "harness_error", "exc": exc_info(e), "tb": traceback.format_exc()[-1500:]}
    tmp = resfile + ".tmp"
    with open(tmp, "w") as fh:
        json.dump(out, fh, default=str)
    os.replace(tmp, resfile)
    sys.stdout.flush()
    os._exit(0)


def _serve(batch_file: str):
    spec = json.loads(Path(batch_file).read_text())
    reqs = spec["requests"]
    resdir = Path(spec["resdir"])
    par = spec.get("parallel", NCPU)
    timeout = spec.get("timeout", 120)
    os.environ.setdefault("PYTHONHASHSEED", "0")
    # warm imports (state after import only; nothing is translated in this process)
    import func_adl_xAOD.atlas.xaod.executor  # noqa: F401
    import func_adl_xAOD.cms.aod.executor  # noqa: F401
    import func_adl_xAOD.cms.miniaod.executor  # noqa: F401
    import qastle  # noqa: F401

    for m in spec.get("preimport", []):
        importlib.import_module(m)
    running: Dict[int, int] = {}
    nxt = 0
    while nxt < len(reqs) or running:
        while nxt < len(reqs) and len(running) < par:
            pid = os.fork()
            if pid == 0:
                devnull = os.open(os.devnull, os.O_WRONLY)
                os.dup2(devnull, 1)
                _child(reqs[nxt], str(resdir / f"{nxt}.json"), timeout)
            running[pid] = nxt
            nxt += 1
        pid, status = os.wait()
        idx = running.pop(pid, None)
        if idx is not None and not (resdir / f"{idx}.json").exists():
            (resdir / f"{idx}.json").write_text(json.dumps(
                {"status": "harness_error", "exc": {"type": "ChildDied", "msg": f"wait status {status}", "where": "", "line": 0}}))


def run_batch(requests: List[Dict[str, Any]], scratch: Path, parallel: int = NCPU, timeout: int = 120,
              preimport: List[str] = (), fresh_each: bool = False) -> List[Dict[str, Any]]:
    """Run requests in fork()ed children of one fresh interpreter.  Returns results in order.
    A missing result (watchdog) is reported as status 'timeout' (inconclusive for the caller)."""
    if not requests:
        return []
    scratch = Path(scratch)
    resdir = scratch / f"xl_{os.getpid()}_{time.time_ns()}"
    resdir.mkdir(parents=True)
    bf = resdir / "batch.json"
    bf.write_text(json.dumps({"requests": requests, "resdir": str(resdir), "parallel": parallel,
                              "timeout": timeout, "preimport": list(preimport)}, default=str))
    env = dict(os.environ)
    env["PYTHONHASHSEED"] = "0"
    env["PYTHONPATH"] = f"{REPO}:{VERIF}:{VERIF / '.deps'}:{VERIF / 'vf' / 'stubs' / 'pow'}"
    env.pop("PYTHONSTARTUP", None)
    wall = max(300, timeout * (len(requests) // max(parallel, 1) + 2))
    try:
        r = subprocess.run([PY, "-m", "vf.xlate", str(bf)], cwd=str(VERIF), env=env, capture_output=True, text=True, timeout=wall)
    except subprocess.TimeoutExpired:
        r = None
    out = []
    for i in range(len(requests)):
        p = resdir / f"{i}.json"
        if p.exists():
            out.append(json.loads(p.read_text()))
        else:
            out.append({"status": "timeout", "stderr": (r.stderr[-500:] if r else "watchdog")})
    if r is not None and r.returncode != 0 and all(o["status"] == "timeout" for o in out):
        raise Inconclusive("translator batch failed to start: " + r.stderr[-800:])
    import shutil

    shutil.rmtree(resdir, ignore_errors=True)
    return out


if __name__ == "__main__":
    _serve(sys.argv[1])
