"""Greedy, type-agnostic shrinker for failing differential cases.  Candidates are AST edits
(replace a node by one of its children / a constant, drop a column, drop a Where ...); a
candidate is kept only if the translator still accepts/refuses it the same way, the Python
reference can still evaluate it (that is the type check) and the failure is still there."""
from __future__ import annotations

import ast
import copy
import time
from typing import Any, Callable, Dict, List, Optional, Tuple

from . import diff
from .core import Ctx

SEQ_OPS = {"Select", "Where", "SelectMany"}


def _candidates(tree: ast.AST) -> List[ast.AST]:
    """All single-edit variants of the expression tree (each a deep copy)."""
    out: List[ast.AST] = []
    nodes = list(ast.walk(tree))

    def variant(idx: int, repl: Callable[[ast.AST], Optional[ast.AST]]):
        t = copy.deepcopy(tree)
        ns = list(ast.walk(t))
        target = ns[idx]
        new = repl(target)
        if new is None:
            return

        class Rep(ast.NodeTransformer):
            def visit(self, node):
                if node is target:
                    return new
                return self.generic_visit(node)
        out.append(ast.fix_missing_locations(Rep().visit(t)))

    for i, n in enumerate(nodes):
        if isinstance(n, ast.BinOp):
            variant(i, lambda x: x.left)
            variant(i, lambda x: x.right)
        elif isinstance(n, ast.BoolOp):
            for k in range(len(n.values)):
                variant(i, lambda x, k=k: x.values[k])
        elif isinstance(n, ast.IfExp):
            variant(i, lambda x: x.body)
            variant(i, lambda x: x.orelse)
        elif isinstance(n, ast.UnaryOp):
            variant(i, lambda x: x.operand)
        elif isinstance(n, ast.Compare):
            variant(i, lambda x: ast.Constant(True))
        elif isinstance(n, (ast.Tuple, ast.List)) and len(n.elts) > 1:
            for k in range(len(n.elts)):
                def drop(x, k=k):
                    y = copy.deepcopy(x)
                    del y.elts[k]
                    return y
                variant(i, drop)
            for k in range(len(n.elts)):
                variant(i, lambda x, k=k: x.elts[k])
        elif isinstance(n, ast.Dict) and len(n.keys) > 1:
            for k in range(len(n.keys)):
                def dropk(x, k=k):
                    y = copy.deepcopy(x)
                    del y.keys[k]
                    del y.values[k]
                    return y
                variant(i, dropk)
        elif isinstance(n, ast.Subscript) and isinstance(n.value, (ast.Tuple, ast.List)) and isinstance(n.slice, ast.Constant):
            variant(i, lambda x: x.value.elts[x.slice.value] if isinstance(x.slice.value, int) and x.slice.value < len(x.value.elts) else None)
        elif isinstance(n, ast.Call):
            # method style  recv.Op(f)  /  function style  Op(recv, f)
            if isinstance(n.func, ast.Attribute) and n.func.attr in SEQ_OPS:
                variant(i, lambda x: x.func.value)
            elif isinstance(n.func, ast.Name) and n.func.id in SEQ_OPS and n.args:
                variant(i, lambda x: x.args[0])
            elif isinstance(n.func, ast.Name) and n.func.id == "MetaData" and n.args:
                variant(i, lambda x: x.args[0])
            # any call producing a number -> constant
            if not (isinstance(n.func, ast.Name) and n.func.id in ("EventDataset", "MetaData", "ResultTTree")):
                variant(i, lambda x: ast.Constant(1))
                variant(i, lambda x: ast.Constant(1.5))
        elif isinstance(n, ast.Lambda):
            # lambda body -> a simpler body using its own parameter is covered by the generic edits
            pass
    return out


def _size(t: ast.AST) -> int:
    return sum(1 for _ in ast.walk(t))


def shrink(ctx: Ctx, eng: "diff.Engine", case: "diff.Case", still_fails: Callable[["diff.Case", Dict[str, Any]], bool],
           budget_s: float = 60.0, max_rounds: int = 25) -> "diff.Case":
    """Returns the smallest failing variant found within the budget.  `still_fails(case, result)`
    receives the differential result dict of a candidate."""
    t0 = time.time()
    best = case
    # 1. events: try the single failing event (if the engine reported one)
    for _ in range(max_rounds):
        if time.time() - t0 > budget_s:
            break
        try:
            tree = ast.parse(best.query, mode="eval").body
        except SyntaxError:
            break
        cands = _candidates(tree)
        seen, texts = set(), []
        for c in sorted(cands, key=_size):
            try:
                txt = ast.unparse(c)
            except Exception:
                continue
            if txt not in seen and txt != best.query and _size(c) < _size(tree):
                seen.add(txt)
                texts.append(txt)
        if not texts:
            break
        texts = texts[:48]
        ccs = [diff.Case(best.backend, t, best.events, best.metadata, best.schema, best.tag, best.wire, best.extra_globals) for t in texts]
        results: List[Tuple[diff.Case, Dict[str, Any]]] = []
        diff.differential(ctx, eng, ccs, lambda c, r: results.append((c, r)))
        ctx.count("shrink_candidates", len(ccs))
        ok = [(c, r) for c, r in results if "harness" not in r and _safe(still_fails, c, r)]
        if not ok:
            break
        best = min(ok, key=lambda cr: len(cr[0].query))[0]
    return best


def _safe(f, c, r) -> bool:
    try:
        return bool(f(c, r))
    except Exception:
        return False


def failure_kind(r: Dict[str, Any]) -> Optional[str]:
    "coarse category of a differential result; None = held"
    tr = r["translate"]
    if tr["status"] == "timeout":
        return "timeout"
    if tr["status"] == "harness_error":
        return "harness"
    if tr["status"] != "ok":
        return "refused:" + tr["exc"]["type"] + "@" + tr["exc"]["where"]
    if "harness" in r:
        return "harness"
    if not r["build"]["ok"]:
        return "build:" + r["build"]["stage"]
    v = r["verdict"]
    if v["harness"]:
        return "harness"
    if v["mismatch"]:
        w = v["mismatch"]["why"]
        if w.startswith("row count"):
            return "mismatch:rowcount"
        if w.startswith("query is undefined"):
            return "mismatch:missed_fault"
        if w.startswith("query is defined"):
            return "mismatch:spurious_fault"
        if w.startswith("monitor flag"):
            return "mismatch:flag"
        if w.startswith("event never"):
            return "mismatch:no_end"
        return "mismatch:value"
    return None
