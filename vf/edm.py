"""Generates the model event data model (C++ headers at the REAL include paths + model
"libraries") from a schema, and serialises events for the drivers.

Each element class is visible only through its own header, each header is tied to a model
library through an anchor symbol: a missing #include is a compile error, a missing
LINK_LIBRARIES entry is a link error."""
from __future__ import annotations

import os
import shutil
import subprocess
from pathlib import Path
from typing import Any, Dict, List, Optional

from .core import Inconclusive, stable_hash

CORE = Path(__file__).resolve().parent / "edm_core"
CXX = os.environ.get("VERIF_CXX", "clang++")
BASE_FLAGS = ["-std=c++17", "-O0", "-g0", "-fno-omit-frame-pointer", "-w"]
SAN_FLAGS = ["-fsanitize=address,undefined", "-fno-sanitize-recover=all"]


def _ns_open(cls: str):
    parts = cls.split("::")
    return "".join(f"namespace {p} {{ " for p in parts[:-1]), parts[-1], "}" * (len(parts) - 1)


def _lib_fn(lib: Optional[str]) -> str:
    return "mon_lib_" + "".join(c if c.isalnum() else "_" for c in lib) if lib else ""


def _ret_type(schema, m) -> str:
    k = m["k"]
    if k in ("num", "fn", "field"):
        return m["ctype"]
    if k == "enum":
        return m["enum"]
    if k == "vec":
        base = f"std::vector<{m['ctype']}>"
        return {"value": base, "cref": f"const {base}&", "ptr": f"const {base}*"}[m.get("ret_by", "value")]
    if k == "obj":
        if m.get("ref"):
            return f"edm::Ref<{m['cls']}>"
        if m["ptr"] == 0:
            return m["cls"]
        return f"const {m['cls']}" + "*" * m["ptr"]
    if k == "objvec":
        el = f"const {m['cls']}*" if m["elem_ptr"] else m["cls"]
        base = f"std::vector<{el}>"
        return {"value": base, "cref": f"const {base}&", "ptr": f"const {base}*"}[m.get("ret_by", "value")]
    raise ValueError(k)


def _stable(expr: str, typ: str, by: str) -> str:
    "return expression for collection results returned by value / const ref / pointer"
    if by == "value":
        return f"return {expr};"
    # keep storage alive per object+member (address-stable), as a real EDM accessor would
    body = f"static std::map<const mon::Obj*, {typ}> c; auto it = c.find(o); if (it == c.end()) it = c.emplace(o, {expr}).first; "
    return body + ("return it->second;" if by == "cref" else "return &it->second;")


def class_header(schema, cls: str) -> str:
    c = schema["classes"][cls]
    opn, short, close = _ns_open(cls)
    lib = c.get("lib")
    deps_top, deps_bottom, fwd = [], [], []
    for name, m in c["members"].items():
        if m["k"] in ("obj", "objvec") and m["cls"] != cls:
            dep = schema["classes"][m["cls"]]["header"]
            byval = (m["k"] == "obj" and m["ptr"] == 0 and not m.get("ref")) or (m["k"] == "objvec" and not m["elem_ptr"])
            (deps_top if byval else deps_bottom).append(dep)
            o2, s2, c2 = _ns_open(m["cls"])
            fwd.append(f"{o2}class {s2}; {c2}")
    for layer in c.get("deref_to", []):
        deps_bottom.append(schema["classes"][layer]["header"])
        o2, s2, c2 = _ns_open(layer)
        fwd.append(f"{o2}class {s2}; {c2}")
    fw = "atlas_fw.h" if schema["backend"] == "atlas" else "cms_fw.h"
    out = ["#pragma once", f'#include "{fw}"']
    out += [f'#include "{d}"' for d in dict.fromkeys(deps_top)]
    out += list(dict.fromkeys(fwd))
    if lib:
        out.append(f'extern "C" void {_lib_fn(lib)}();')
    out.append(f"{opn}class {short} {{ public:")
    out.append("  const mon::Obj *o = nullptr;")
    out.append(f"  static void mon_anchor() {{ {_lib_fn(lib) + '();' if lib else ''} }}")
    for en, vals in c.get("enums", {}).items():
        out.append(f"  enum {en} {{ {', '.join(vals)} }};")
    for scope, enums in c.get("nested_enums", {}).items():
        out.append(f"  struct {scope} {{ " + " ".join(f"enum {en} {{ {', '.join(vals)} }};" for en, vals in enums.items()) + " };")
    fields = [(n, m) for n, m in c["members"].items() if m["k"] == "field"]
    for n, m in fields:
        out.append(f"  {m['ctype']} {n} = 0;")
    fill = " ".join(f'{n} = ({m["ctype"]})o->num("{n}");' for n, m in fields)
    out.append(f"  void mon_fill() {{ {fill} }}")
    defs = []
    for n, m in c["members"].items():
        k = m["k"]
        rt = _ret_type(schema, m)
        extra = "".join("*" for _ in range(0))
        if k == "num":
            conv = f'(o->num("{n}") != 0)' if m["ctype"] == "bool" else f'({m["ctype"]})o->num("{n}")'
            out.append(f"  {rt} {n}() const {{ mon_anchor(); return {conv}; }}")
        elif k == "enum":
            out.append(f"  {rt} {n}() const {{ mon_anchor(); return ({rt})(int)o->num(\"{n}\"); }}")
        elif k == "fn":
            ps = ", ".join(f"{t} {p}" for p, t in m["params"])
            out.append(f"  {rt} {n}({ps}) const {{ mon_anchor(); return ({m['ctype']})({m['cxx']}); }}")
        elif k == "vec":
            base = f"std::vector<{m['ctype']}>"
            expr = f'mon::cast_vec<{m["ctype"]}>(o->vec("{n}"))'
            out.append(f"  {rt} {n}() const {{ mon_anchor(); {_stable(expr, base, m.get('ret_by', 'value'))} }}")
        elif k == "obj":
            out.append(f"  {rt} {n}() const;")
            if m.get("ref"):
                body = f'return edm::Ref<{m["cls"]}>(mon::wrap<{m["cls"]}>(o->link("{n}")));'
            elif m["ptr"] == 0:
                body = f'{m["cls"]} t; t.o = o->link("{n}"); t.mon_fill(); return t;'
            elif m["ptr"] == 1:
                body = f'return mon::wrap<{m["cls"]}>(o->link("{n}"));'
            else:  # pointer to pointer: stable slot holding the inner pointer
                body = (f'static std::map<const mon::Obj*, const {m["cls"]}*> c; auto it = c.find(o); '
                        f'if (it == c.end()) it = c.emplace(o, mon::wrap<{m["cls"]}>(o->link("{n}"))).first; return &it->second;')
            defs.append(f"inline {rt} {cls}::{n}() const {{ mon_anchor(); {body} }}")
        elif k == "objvec":
            out.append(f"  {rt} {n}() const;")
            el = f"const {m['cls']}*" if m["elem_ptr"] else m["cls"]
            expr = (f'mon::wrap_all<{m["cls"]}>(o->links("{n}"))' if m["elem_ptr"] else f'mon::wrap_all_val<{m["cls"]}>(o->links("{n}"))')
            defs.append(f"inline {rt} {cls}::{n}() const {{ mon_anchor(); {_stable(expr, f'std::vector<{el}>', m.get('ret_by', 'value'))} }}")
    if c.get("attributes"):
        out.append("  template <class T> T getAttribute(const std::string &name) const;")
    # dereference layers for deref_count experiments: operator* / operator-> returning an inner view
    for layer in c.get("deref_to", []):
        out.append(f"  const {layer} &operator*() const;")
        out.append(f"  const {layer} *operator->() const;")
        defs.append(f"inline const {layer} &{cls}::operator*() const {{ return *mon::wrap<{layer}>(o->link(\"__inner\")); }}")
        defs.append(f"inline const {layer} *{cls}::operator->() const {{ return mon::wrap<{layer}>(o->link(\"__inner\")); }}")
    if c.get("singleton"):
        out.append(f"  static const {short} *mon_make(const mon::Bank *b);")
        defs.append(f"inline const {cls} *{cls}::mon_make(const mon::Bank *b) {{ mon_anchor(); return mon::wrap<{cls}>(b->objs.at(0)); }}")
    out.append(f"}}; {close}")
    for al in c.get("alias", []):
        o2, s2, c2 = _ns_open(al)
        out.append(f"{o2}typedef {cls} {s2}; {c2}")
    out += [f'#include "{d}"' for d in dict.fromkeys(deps_bottom)]
    out += defs
    if c.get("attributes"):
        out.append(f"""namespace mon {{ template <class T> struct attr_get;
template <> struct attr_get<float> {{ static float get(const Obj *o, const std::string &n) {{ out() << "GETATTR kind=float name=" << hex(n) << "\\n"; auto it = o->d.find("attr:" + n); if (it == o->d.end()) throw std::runtime_error("no such attribute " + n); return (float)it->second; }} }};
template <> struct attr_get<std::vector<double>> {{ static std::vector<double> get(const Obj *o, const std::string &n) {{ out() << "GETATTR kind=vdouble name=" << hex(n) << "\\n"; auto it = o->v.find("attr:" + n); if (it == o->v.end()) throw std::runtime_error("no such attribute " + n); return it->second; }} }}; }}
template <class T> T {cls}::getAttribute(const std::string &name) const {{ mon_anchor(); return mon::attr_get<T>::get(o, name); }}""")
    if c.get("singleton"):
        out.append(f'MON_CNAME({cls}, "{cls}")')
    return "\n".join(out) + "\n"


def container_header(schema, coll: Dict[str, Any]) -> str:
    cont, el = coll["container"], coll["element"]
    opn, short, close = _ns_open(cont)
    out = ["#pragma once", f'#include "{schema["classes"][el]["header"]}"']
    if schema["backend"] == "atlas":
        out.append(f"{opn}typedef DataVector<{el}> {short}; {close}")
    else:
        out.append(f"{opn}typedef std::vector<{el}> {short}; {close}")
    guard = "MON_CNAME_" + "".join(ch if ch.isalnum() else "_" for ch in cont)
    out.append(f'#ifndef {guard}\n#define {guard}\nMON_CNAME({cont}, "{cont}")\n#endif')
    return "\n".join(out) + "\n"


def container_header_path(schema, coll) -> str:
    if coll.get("container_header"):
        return coll["container_header"]
    el_header = schema["classes"][coll["element"]]["header"] if coll["element"] else None
    for h in coll["headers"]:
        if h != el_header and ("Container" in h or "Fwd" in h or "Collection" in h):
            return h
    return coll["headers"][0]


class Model:
    "A generated model EDM on disk (include dir + library objects) for one schema."

    def __init__(self, schema, root: Path, sanitize: bool = True):
        self.schema = schema
        self.backend = schema["backend"]
        self.root = Path(root)
        self.inc = self.root / "inc"
        self.libdir = self.root / "lib"
        self.sanitize = sanitize
        self.pch: Optional[Path] = None
        self._build()

    def _w(self, rel: str, text: str, append: bool = False):
        p = self.inc / rel
        p.parent.mkdir(parents=True, exist_ok=True)
        if append and p.exists():
            old = p.read_text()
            if text not in old:
                p.write_text(old + "\n" + text.replace("#pragma once\n", ""))
        else:
            p.write_text(text)

    def _build(self):
        s = self.schema
        self.inc.mkdir(parents=True, exist_ok=True)
        self.libdir.mkdir(parents=True, exist_ok=True)
        for f in ("mon_core.h", "atlas_fw.h", "cms_fw.h", "atlas_driver.cxx", "cms_driver.cxx"):
            shutil.copy(CORE / f, self.inc / f)
        self._w("TTree.h", '#pragma once\n#include "mon_core.h"\n')
        self._w("TVector2.h", '#pragma once\n#include <cmath>\nstruct TVector2 { static double Phi_mpi_pi(double x) { if (std::isnan(x)) return x; '
                              'while (x >= M_PI) x -= 2 * M_PI; while (x < -M_PI) x += 2 * M_PI; return x; } };\n')
        if self.backend == "atlas":
            self._w("AnaAlgorithm/AnaAlgorithm.h", '#pragma once\n#include "atlas_fw.h"\n')
            self._w("xAODRootAccess/tools/TFileAccessTracer.h", '#pragma once\n#include "atlas_fw.h"\n')
        else:
            for h in ["FWCore/Framework/interface/Frameworkfwd.h", "FWCore/Framework/interface/EDAnalyzer.h", "FWCore/Framework/interface/one/EDAnalyzer.h",
                      "FWCore/Framework/interface/Event.h", "FWCore/Framework/interface/MakerMacros.h", "FWCore/ParameterSet/interface/ParameterSet.h",
                      "FWCore/Utilities/interface/InputTag.h", "FWCore/Framework/interface/EventSetup.h", "FWCore/ServiceRegistry/interface/Service.h",
                      "CommonTools/UtilAlgos/interface/TFileService.h"]:
                self._w(h, '#pragma once\n#include "cms_fw.h"\n')
        # singletons are their own container
        for cname, coll in s["collections"].items():
            if coll["element"] is None:
                s["classes"][coll["container"]]["singleton"] = True
        written = set()
        for cls, c in s["classes"].items():
            txt = class_header(s, cls)
            self._w(c["header"], txt, append=c["header"] in written)
            written.add(c["header"])
        for cname, coll in s["collections"].items():
            if coll["element"] is not None:
                p = container_header_path(s, coll)
                self._w(p, container_header(s, coll), append=p in written)
                written.add(p)
            for h in coll["headers"]:
                if h not in written and not (self.inc / h).exists():
                    self._w(h, "#pragma once\n")
                    written.add(h)
        # the r7 template includes this unconditionally
        if self.backend != "atlas" and not (self.inc / "DataFormats/TrackReco/interface/Track.h").exists():
            self._w("DataFormats/TrackReco/interface/Track.h", '#pragma once\n#include "cms_fw.h"\n')
        for extra in s.get("extra_headers", {}).items():
            self._w(extra[0], extra[1])
        libs = sorted({c["lib"] for c in s["classes"].values() if c.get("lib")})
        for lib in libs:
            src = self.libdir / f"{lib}.cxx"
            src.write_text(f'extern "C" void {_lib_fn(lib)}() {{}}\n')
            r = subprocess.run([CXX, "-c", "-O0", str(src), "-o", str(self.libdir / f"{lib}.o")], capture_output=True, text=True)
            if r.returncode:
                raise Inconclusive("model library compile failed: " + r.stderr[-400:])
        # precompiled header of the heavy, schema-independent part only
        fw = "atlas_fw.h" if self.backend == "atlas" else "cms_fw.h"
        pch = self.root / f"{fw}.pch"
        r = subprocess.run([CXX, *BASE_FLAGS, *(SAN_FLAGS if self.sanitize else []), "-x", "c++-header", str(self.inc / fw), "-o", str(pch)],
                           capture_output=True, text=True)
        if r.returncode:
            raise Inconclusive("PCH build failed: " + r.stderr[-600:])
        self.pch = pch

    def lib_objects(self, names: List[str]) -> List[str]:
        "model library objects for the named libraries plus (as real shared libraries do) the libraries those depend on"
        deps: Dict[str, set] = {}
        for cls, c in self.schema["classes"].items():
            if c.get("lib"):
                d = deps.setdefault(c["lib"], set())
                for m in c["members"].values():
                    if m["k"] in ("obj", "objvec"):
                        l2 = self.schema["classes"][m["cls"]].get("lib")
                        if l2:
                            d.add(l2)
        todo, seen = list(names), []
        while todo:
            n = todo.pop()
            if n in seen:
                continue
            seen.append(n)
            todo += list(deps.get(n, ()))
        out = []
        for n in seen:
            p = self.libdir / f"{n}.o"
            if p.exists():
                out.append(str(p))
        return out


# ---------------------------------------------------------------- events

def _fmt(x) -> str:
    if isinstance(x, bool):
        return "1" if x else "0"
    return repr(float(x)) if isinstance(x, float) else str(x)


def serialize_events(schema, events: List[Dict[str, Any]]) -> str:
    """events: list of {'banks': [{'coll': name, 'bank': str, 'objs': [objdict,...]}]}
    objdict: {'__cls': cls, member: value...} nested objects inline (dict / None / list)."""
    lines: List[str] = []
    for ev in events:
        lines.append("EVENT")
        counter = [0]
        objlines: List[str] = []
        memo: Dict[int, int] = {}

        def emit(o) -> int:
            if id(o) in memo:
                return memo[id(o)]
            counter[0] += 1
            oid = counter[0]
            memo[id(o)] = oid
            cls = o["__cls"]
            parts = []
            members = schema["classes"][cls]["members"]
            for k, v in o.items():
                if k.startswith("__"):
                    if k == "__inner":
                        parts.append(f"lnk:__inner={emit(v)}")
                    continue
                if k.startswith("attr:"):
                    hn = k[5:].encode().hex() or "-"
                    if isinstance(v, list):
                        parts.append(f"hvec:{hn}={';'.join(_fmt(x) for x in v)}")
                    else:
                        parts.append(f"hnum:{hn}={_fmt(v)}")
                    continue
                m = members[k]
                kk = m["k"]
                if kk in ("num", "field", "enum"):
                    parts.append(f"num:{k}={_fmt(v)}")
                elif kk == "vec":
                    parts.append(f"vec:{k}={';'.join(_fmt(x) for x in v)}")
                elif kk == "obj":
                    parts.append(f"lnk:{k}={'null' if v is None else emit(v)}")
                elif kk == "objvec":
                    parts.append(f"lv:{k}={';'.join(str(emit(x)) for x in v)}")
            objlines.append(f"O {oid} {cls.replace(' ', '')} " + " ".join(parts))
            return oid

        banklines = []
        for b in ev["banks"]:
            ids = [emit(o) for o in b["objs"]]
            ctype = schema["collections"][b["coll"]]["container"] if "ctype" not in b else b["ctype"]
            banklines.append(f"BANK {ctype.encode().hex()} {b['bank'].encode().hex() or '-'} {';'.join(map(str, ids)) or '-'}")
        lines += objlines + banklines
    return "\n".join(lines) + "\n"
