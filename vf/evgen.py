"""Hostile event lists for a schema: empty collections, singletons, ties, zero/negative
values, null links, absent banks, alternating large/empty events (stale-state detection).
All floating values are dyadic rationals k/8 of small magnitude, so the arithmetic the
generated C++ performs in float or double is exact or well inside the column tolerance."""
from __future__ import annotations

import random
from typing import Any, Dict, List, Optional

from .schema import py_kind

# which boolean member mirrors which nullable link
LINK_FLAGS = {"hasLead": "leadTrack", "hasProd": "prodVtx", "hasParent": "parent"}
DEFAULT_BANKS = {"Tracks": ["T"], "EventInfo": ["EventInfo"], "TruthParticles": ["TP"], "Electrons": ["El"], "Muons": ["Mu"],
                 "MissingET": ["MET"], "TrackMuons": ["TM"], "Vertex": ["V"], "GsfElectrons": ["GE"]}


def dyadic(R: random.Random, lo=-64, hi=640) -> float:
    return R.randint(lo, hi) / 8.0


def gen_obj(schema, cls: str, R: random.Random, depth: int = 0, profile: str = "mixed", pool: Optional[List[float]] = None) -> Dict[str, Any]:
    members = schema["classes"][cls]["members"]
    o: Dict[str, Any] = {"__cls": cls}

    def fval():
        if pool is not None and R.random() < 0.6:
            return R.choice(pool)
        r = R.random()
        if r < 0.08:
            return 0.0
        if r < 0.2:
            return -dyadic(R, 1, 160)
        return dyadic(R, 1, 640)

    for n, m in members.items():
        k = m["k"]
        if k in ("num", "field"):
            kind = py_kind(m["ctype"])
            if kind == "bool":
                o[n] = R.random() < 0.5
            elif kind == "int":
                o[n] = R.choice([0, 0, 1, 2, 3, 4, 5, 7]) if not m.get("signed") else R.randint(-4, 9)
            else:
                o[n] = fval()
        elif k == "vec":
            ln = R.choice([0, 0, 1, 2, 3]) if profile != "dense" else R.choice([1, 2, 3, 4])
            kind = py_kind(m["ctype"])
            o[n] = [(R.randint(0, 9) if kind == "int" else (R.random() < 0.5 if kind == "bool" else fval())) for _ in range(ln)]
        elif k == "obj":
            if m.get("nullable") and (R.random() < 0.4 or depth >= 2):
                o[n] = None
            elif depth >= 3:
                o[n] = None if m.get("nullable") else gen_obj(schema, m["cls"], R, 99, profile, pool)
            else:
                o[n] = gen_obj(schema, m["cls"], R, depth + 1, profile, pool)
        elif k == "objvec":
            ln = 0 if depth >= 2 else (R.choice([0, 0, 1, 2, 3]) if profile != "dense" else R.choice([1, 2, 3]))
            o[n] = [gen_obj(schema, m["cls"], R, depth + 1, profile, pool) for _ in range(ln)]
        elif k == "enum":
            o[n] = R.randrange(m.get("nvalues") or len(schema["classes"][cls]["enums"][m["enum"]]))
        elif k == "fn":
            pass
    for flag, link in LINK_FLAGS.items():
        if flag in members and link in members:
            o[flag] = o[link] is not None
    for layer in schema["classes"][cls].get("deref_to", []):
        o["__inner"] = gen_obj(schema, layer, R, depth + 1, profile, pool)
    if schema["classes"][cls].get("attributes"):
        o["attr:emf"] = fval()
        o["attr:vals"] = [fval() for _ in range(R.choice([0, 1, 3]))]
    return o


def gen_event(schema, R: random.Random, profile: str = "mixed", banks: Optional[Dict[str, List[str]]] = None, absent: float = 0.0) -> Dict[str, Any]:
    main = schema["main"]
    bankmap = dict(DEFAULT_BANKS)
    bankmap[main["coll"]] = list(main["banks"])
    if banks:
        bankmap.update(banks)
    pool = [dyadic(R, 1, 400) for _ in range(3)] if profile in ("ties", "mixed") and R.random() < 0.5 else None
    ev = {"banks": []}
    for coll, spec in schema["collections"].items():
        for bank in bankmap.get(coll, [coll]):
            if absent and R.random() < absent:
                continue
            if spec["element"] is None:
                objs = [gen_obj(schema, spec["container"], R, 0, profile, pool)]
            else:
                if profile == "empty":
                    n = 0
                elif profile == "single":
                    n = 1
                elif profile == "dense":
                    n = R.choice([2, 3, 4, 5])
                else:
                    n = R.choice([0, 0, 1, 1, 2, 3, 4])
                objs = [gen_obj(schema, spec["element"], R, 0, profile, pool) for _ in range(n)]
            ev["banks"].append({"coll": coll, "bank": bank, "objs": objs})
    return ev


def gen_events(schema, R: random.Random, n: int = 10, banks=None) -> List[Dict[str, Any]]:
    """Alternate rich and empty events, include all-empty, singleton and tie-heavy ones."""
    profiles = ["dense", "empty", "mixed", "single", "ties", "empty", "dense", "mixed", "mixed", "single", "dense", "ties"]
    out = []
    for i in range(n):
        out.append(gen_event(schema, R, profiles[i % len(profiles)], banks))
    return out
