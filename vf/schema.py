"""Typed universes ("schemas") the workloads run in: per backend the event collections,
the element classes and for every member its return kind.  The SAME schema object drives
 (a) the generated C++ model headers the emitted code is compiled against (edm.py),
 (b) the Python model objects the reference evaluates the query on (refrt.py),
 (c) the metadata a query must carry (add_method_type_info ...) and
 (d) the typed query generator (qgen.py).
"""
from __future__ import annotations

import copy
from typing import Any, Dict, List, Optional

# ---- member constructors -------------------------------------------------

def num(ctype="double", declared=None, **kw):
    "scalar method; undeclared double is the documented fallback"
    d = {"k": "num", "ctype": ctype, "declared": (ctype != "double") if declared is None else declared}
    d.update(kw)
    return d


def vec(elem="float", **kw):
    d = {"k": "vec", "ctype": elem, "declared": True}
    d.update(kw)
    return d


def obj(cls, ptr=1, nullable=False, ref=False, **kw):
    d = {"k": "obj", "cls": cls, "ptr": ptr, "nullable": nullable, "ref": ref, "declared": True}
    d.update(kw)
    return d


def objvec(cls, elem_ptr=1, **kw):
    d = {"k": "objvec", "cls": cls, "elem_ptr": elem_ptr, "declared": True}
    d.update(kw)
    return d


def field(ctype="float", **kw):
    "public data member (read as obj.name, no call)"
    d = {"k": "field", "ctype": ctype, "declared": ctype != "double"}
    d.update(kw)
    return d


def fn(ctype, params, cxx, py, declared=None, **kw):
    "method with primitive arguments and a closed formula (same formula both sides)"
    d = {"k": "fn", "ctype": ctype, "params": params, "cxx": cxx, "py": py,
         "declared": (ctype != "double") if declared is None else declared}
    d.update(kw)
    return d


CTYPE_KIND = {"double": "float", "float": "float", "int": "int", "bool": "bool", "unsigned int": "int", "short": "int", "long": "int",
              "unsigned long long": "int", "long long": "int", "unsigned short": "int", "unsigned long": "int"}


def py_kind(ctype: str) -> str:
    return CTYPE_KIND.get(ctype, "float")


# ---- fixed schemas -------------------------------------------------------

_KIN = {"pt": num(), "eta": num(), "phi": num(), "m": num()}

ATLAS: Dict[str, Any] = {
    "backend": "atlas",
    "classes": {
        "xAOD::Jet": {"header": "xAODJet/Jet.h", "lib": "xAODJet", "alias": ["xAOD::Jet_v1"], "attributes": True, "members": {
            **_KIN,
            "nTrk": num("int"), "width": num("float"), "isGood": num("bool"), "hasLead": num("bool"),
            "ttype": num("double", declared=True, md={"metadata_type": "add_method_type_info", "type_string": "xAOD::Jet", "method_name": "ttype", "return_type": "double", "tree_type": "float"}),
            "trkPts": vec("float"), "hits": vec("int"), "weights": vec("double"), "ptList": vec("float", coll_type="ana::FloatList"),
            "tracks": objvec("xAOD::TrackParticle", 1),
            "leadTrack": obj("xAOD::TrackParticle", 1, nullable=True),
            "scaled": fn("double", [("a", "double")], 'a * o->num("pt")', lambda o, a: a * o["pt"]),
            "plusN": fn("int", [("a", "int")], 'a + (int)o->num("nTrk")', lambda o, a: a + o["nTrk"]),
        }},
        "xAOD::TrackParticle": {"header": "xAODTracking/TrackParticle.h", "lib": "xAODTracking", "members": {
            **_KIN, "nHits": num("int"), "charge": num("float"), "d0s": vec("float"),
        }},
        "xAOD::EventInfo": {"header": "xAODEventInfo/EventInfo.h", "lib": "xAODEventInfo", "members": {
            "runNumber": num("int"), "eventNumber": num("int"), "mu": num("float"), "weight": num(),
        }},
        "xAOD::TruthParticle": {"header": "xAODTruth/TruthParticle.h", "lib": "xAODTruth", "members": {
            **_KIN, "pdgId": num("int"), "hasProd": num("bool"), "hasParent": num("bool"),
            "prodVtx": obj("xAOD::TruthVertex", 1, nullable=True, builtin_decl=True, decl_type="xAODTruth::TruthVertex"),
            "parent": obj("xAOD::TruthParticle", 1, nullable=True, builtin_decl=True),
        }},
        "xAOD::TruthVertex": {"header": "xAODTruth/TruthVertex.h", "lib": "xAODTruth", "type_names": ["xAODTruth::TruthVertex"], "members": {
            "x": num(), "y": num(), "z": num(), "nOut": num("int"),
        }},
        "xAOD::Electron": {"header": "xAODEgamma/Electron.h", "lib": "xAODEgamma", "members": {**_KIN, "charge": num("float"), "nCells": num("int")}},
        "xAOD::Muon": {"header": "xAODMuon/Muon.h", "lib": "xAODMuon", "members": {**_KIN, "charge": num("float"), "quality": num("int")}},
        "xAOD::MissingET": {"header": "xAODMissingET/MissingET.h", "lib": "xAODMissingET", "members": {"met": num(), "mpx": num(), "mpy": num()}},
    },
    "collections": {
        "Jets": {"container": "xAOD::JetContainer", "element": "xAOD::Jet", "headers": ["xAODJet/JetContainer.h"], "libs": ["xAODJet"], "builtin": True},
        "Tracks": {"container": "xAOD::TrackParticleContainer", "element": "xAOD::TrackParticle", "headers": ["xAODTracking/TrackParticleContainer.h"], "libs": ["xAODTracking"], "builtin": True},
        "EventInfo": {"container": "xAOD::EventInfo", "element": None, "headers": ["xAODEventInfo/EventInfo.h"], "libs": ["xAODEventInfo"], "builtin": True},
        "TruthParticles": {"container": "xAOD::TruthParticleContainer", "element": "xAOD::TruthParticle", "headers": ["xAODTruth/TruthParticleContainer.h", "xAODTruth/TruthParticle.h", "xAODTruth/TruthVertex.h"], "libs": ["xAODTruth"], "builtin": True},
        "Electrons": {"container": "xAOD::ElectronContainer", "element": "xAOD::Electron", "headers": ["xAODEgamma/ElectronContainer.h", "xAODEgamma/Electron.h"], "libs": ["xAODEgamma"], "builtin": True},
        "Muons": {"container": "xAOD::MuonContainer", "element": "xAOD::Muon", "headers": ["xAODMuon/MuonContainer.h", "xAODMuon/Muon.h"], "libs": ["xAODMuon"], "builtin": True},
        "MissingET": {"container": "xAOD::MissingETContainer", "element": "xAOD::MissingET", "headers": ["xAODMissingET/MissingETContainer.h", "xAODMissingET/MissingET.h"], "libs": ["xAODMissingET"], "builtin": True},
    },
    # the "main" collection the generic generators use
    "main": {"coll": "Jets", "banks": ["A", "B"], "sub": "tracks", "subcls": "xAOD::TrackParticle"},
}


def _cms_common_classes(hit_builtin: bool, track_names) -> Dict[str, Any]:
    return {
        "reco::Track": {"header": "DataFormats/TrackReco/interface/Track.h", "type_names": track_names, "members": {
            **_KIN, "nHits": num("int"), "charge": num("float"), "d0s": vec("float"),
            "hitPattern": obj("reco::HitPattern", 0, builtin_decl=hit_builtin),
        }},
        "reco::HitPattern": {"header": "DataFormats/TrackReco/interface/HitPattern.h", "members": {
            "numberOfValidHits": num(), "numberOfLostHits": num("int"),
        }},
        "reco::MuonPFIsolation": {"header": "DataFormats/MuonReco/interface/MuonPFIsolation.h", "members": {
            "sumChargedHadronPt": field("float"), "sumNeutralHadronEt": field("float"), "nCands": field("int"),
        }},
        "reco::Vertex": {"header": "DataFormats/VertexReco/interface/Vertex.h", "members": {
            "x": num(), "y": num(), "z": num(), "ndof": num(), "nTracks": num("int"),
        }},
    }


CMS_AOD: Dict[str, Any] = {
    "backend": "cms_aod",
    "classes": {
        **_cms_common_classes(True, []),
        "reco::Muon": {"header": "DataFormats/MuonReco/interface/Muon.h", "members": {
            **_KIN, "nTrk": num("int"), "width": num("float"), "isGood": num("bool"), "hasLead": num("bool"),
            "ttype": num("double", declared=True, md={"metadata_type": "add_method_type_info", "type_string": "reco::Muon", "method_name": "ttype", "return_type": "double", "tree_type": "float"}),
            "trkPts": vec("float"), "hits": vec("int"), "weights": vec("double"), "ptList": vec("float", coll_type="ana::FloatList"),
            "tracks": objvec("reco::Track", 0),
            "isPFMuon": num("bool", builtin_decl=True), "isPFIsolationValid": num("bool", builtin_decl=True),
            "globalTrack": obj("reco::Track", 1, nullable=True, ref=True, builtin_decl=True),
            "pfIsolationR04": obj("reco::MuonPFIsolation", 0, builtin_decl=True),
            "scaled": fn("double", [("a", "double")], 'a * o->num("pt")', lambda o, a: a * o["pt"]),
            "plusN": fn("int", [("a", "int")], 'a + (int)o->num("nTrk")', lambda o, a: a + o["nTrk"]),
        }},
        "reco::GsfElectron": {"header": "DataFormats/EgammaCandidates/interface/GsfElectron.h", "members": {
            **_KIN, "charge": num("float"), "nCells": num("int"), "isEB": num("bool", builtin_decl=True), "isEE": num("bool", builtin_decl=True),
        }},
    },
    "collections": {
        "Muons": {"container": "reco::MuonCollection", "element": "reco::Muon", "builtin": True, "headers": [
            "DataFormats/MuonReco/interface/Muon.h", "DataFormats/MuonReco/interface/MuonFwd.h", "DataFormats/MuonReco/interface/MuonSelectors.h",
            "DataFormats/MuonReco/interface/MuonIsolation.h", "DataFormats/MuonReco/interface/MuonPFIsolation.h"], "libs": []},
        "Tracks": {"container": "reco::TrackCollection", "element": "reco::Track", "builtin": True, "headers": [
            "DataFormats/TrackReco/interface/Track.h", "DataFormats/TrackReco/interface/TrackFwd.h", "DataFormats/TrackReco/interface/HitPattern.h"], "libs": []},
        "TrackMuons": {"container": "reco::TrackCollection", "element": "reco::Track", "builtin": True, "headers": [
            "DataFormats/MuonReco/interface/Muon.h", "DataFormats/MuonReco/interface/MuonFwd.h", "DataFormats/MuonReco/interface/MuonSelectors.h",
            "DataFormats/MuonReco/interface/MuonIsolation.h", "DataFormats/MuonReco/interface/MuonPFIsolation.h",
            "DataFormats/TrackReco/interface/Track.h", "DataFormats/TrackReco/interface/TrackFwd.h", "DataFormats/TrackReco/interface/HitPattern.h"], "libs": []},
        "Vertex": {"container": "reco::VertexCollection", "element": "reco::Vertex", "builtin": True, "headers": [
            "DataFormats/VertexReco/interface/Vertex.h", "DataFormats/VertexReco/interface/VertexFwd.h"], "libs": []},
        "GsfElectrons": {"container": "reco::GsfElectronCollection", "element": "reco::GsfElectron", "builtin": True, "headers": [
            "DataFormats/EgammaCandidates/interface/GsfElectron.h", "DataFormats/GsfTrackReco/interface/GsfTrack.h", "DataFormats/GsfTrackReco/interface/GsfTrackFwd.h"], "libs": []},
    },
    "main": {"coll": "Muons", "banks": ["A", "B"], "sub": "tracks", "subcls": "reco::Track"},
}

CMS_MINIAOD: Dict[str, Any] = {
    "backend": "cms_miniaod",
    "classes": {
        **_cms_common_classes(False, ["reco::TrackRef"]),
        "pat::Muon": {"header": "DataFormats/PatCandidates/interface/Muon.h", "members": {
            **_KIN, "nTrk": num("int"), "width": num("float"), "isGood": num("bool"), "hasLead": num("bool"),
            "ttype": num("double", declared=True, md={"metadata_type": "add_method_type_info", "type_string": "pat::Muon", "method_name": "ttype", "return_type": "double", "tree_type": "float"}),
            "trkPts": vec("float"), "hits": vec("int"), "weights": vec("double"), "ptList": vec("float", coll_type="ana::FloatList"),
            "tracks": objvec("reco::Track", 0),
            "isPFMuon": num("bool", builtin_decl=True), "isPFIsolationValid": num("bool", builtin_decl=True),
            "globalTrack": obj("reco::Track", 1, nullable=True, ref=True, builtin_decl=True, decl_type="reco::TrackRef"),
            "pfIsolationR04": obj("reco::MuonPFIsolation", 0, builtin_decl=True),
            "scaled": fn("double", [("a", "double")], 'a * o->num("pt")', lambda o, a: a * o["pt"]),
            "plusN": fn("int", [("a", "int")], 'a + (int)o->num("nTrk")', lambda o, a: a + o["nTrk"]),
        }},
        "pat::Electron": {"header": "DataFormats/PatCandidates/interface/Electron.h", "members": {
            **_KIN, "charge": num("float"), "nCells": num("int"), "isEB": num("bool", builtin_decl=True), "isEE": num("bool", builtin_decl=True),
        }},
    },
    "collections": {
        "Muons": {"container": "pat::MuonCollection", "element": "pat::Muon", "builtin": True, "headers": ["DataFormats/PatCandidates/interface/Muon.h"], "libs": []},
        "Vertex": {"container": "reco::VertexCollection", "element": "reco::Vertex", "builtin": True, "headers": [
            "DataFormats/VertexReco/interface/Vertex.h", "DataFormats/VertexReco/interface/VertexFwd.h"], "libs": []},
        "Electrons": {"container": "pat::ElectronCollection", "element": "pat::Electron", "builtin": True, "headers": [
            "DataFormats/PatCandidates/interface/Electron.h", "DataFormats/EgammaCandidates/interface/GsfElectron.h"], "libs": []},
    },
    "main": {"coll": "Muons", "banks": ["A", "B"], "sub": "tracks", "subcls": "reco::Track"},
}

FIXED = {"atlas": ATLAS, "cms_aod": CMS_AOD, "cms_miniaod": CMS_MINIAOD}
BACKENDS = ["atlas", "cms_aod", "cms_miniaod"]


# two user headers that share a file name (one per package directory), for plug-ins that each need their own
USER_HEADERS = {"PkgA/helpers.h": "#pragma once\nnamespace pkga { inline double twice(double x) { return 2 * x; } }\n",
                "PkgB/interface/helpers.h": "#pragma once\nnamespace pkgb { inline double thrice(double x) { return 3 * x; } }\n"}
for _s in FIXED.values():
    _s.setdefault("extra_headers", {}).update(USER_HEADERS)


def fixed(backend: str) -> Dict[str, Any]:
    return FIXED[backend]


def element_is_pointer(schema) -> bool:
    return schema["backend"] == "atlas"


# ---- metadata a query needs for the members it uses -----------------------

def member_metadata(schema, cls: str, name: str) -> List[Dict[str, Any]]:
    """The add_method_type_info dicts a query must carry for a declared member (one per type
    name the translator may know the class under); [] for an undeclared double or a member
    the backend declares itself."""
    m = schema["classes"][cls]["members"][name]
    if m.get("builtin_decl") or not m.get("declared"):
        return []
    if "md" in m:  # explicit declaration supplied by a random schema
        return [dict(x) for x in (m["md"] if isinstance(m["md"], list) else [m["md"]])]
    out = []
    for tname in lookup_class_names(schema, cls):
        d: Dict[str, Any] = {"metadata_type": "add_method_type_info", "type_string": tname, "method_name": name}
        k = m["k"]
        if k in ("num", "fn", "field"):
            d["return_type"] = m["ctype"]
        elif k == "vec":
            d["return_type_element"] = m["ctype"]
            if m.get("coll_type"):     # a container class of the experiment's own (not spelled std::vector<...>)
                d["return_type_collection"] = m["coll_type"]
        elif k == "obj":
            d["return_type"] = m.get("decl_type", m["cls"]) + "*" * (1 if m.get("ref") else m["ptr"])
        elif k == "objvec":
            d["return_type_element"] = m["cls"] + "*" * m["elem_ptr"]
        out.append(d)
    return out


def lookup_class_names(schema, cls: str) -> List[str]:
    "type names the translator may use for method lookups on objects of this class"
    return [cls] + list(schema["classes"][cls].get("type_names", []))


def clone(schema):
    return copy.deepcopy(schema)
