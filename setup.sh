#!/bin/bash
# Offline setup: install the runtime-contract libraries next to the harness (git-ignored .deps)
set -e
cd "$(dirname "$0")"
if [ ! -d .deps/icontract ]; then
  /venv/bin/pip install -q --no-index --find-links /opt/veriftools/wheels --target .deps icontract deal >/dev/null 2>&1 || \
  /venv/bin/pip install --no-index --find-links /opt/veriftools/wheels --target .deps icontract deal
fi
clang++ --version >/dev/null
echo setup-ok
